import Arc.Base.Proto
import Arc.Model.C04
/-!
Model driver for C04. One op per line (names are lower-case hex, `-` = empty string):

    new <maxbuf> <wal 0|1>                       fresh server instance                         → ok
    req <ep> <db> <pre> <vmeas> <rec>*           one HTTP request                              → <2xx|4xx|5xx> added=<n> rp=<site|-> crash=<site|->
         ep    = msgpack|lp|tle|csv|parquet|implp|imptle
         pre   = ok | <status>   (rejected outside the model: empty body, size cap, decompression, parser)
         vmeas = `*` (none) or comma-separated measurement names the handler validates
         rec   = G|<meas>|<nrec>|<times>|<name>:<cells>;…      generic columns (cells: n i u f g s b x, `.` = empty)
               | T|<meas>|<nrec>|<times>|<name>:<ty>:<len>:<vlen>;…   typed batch (ty: i f s b)
               | N                                                      a value Write has no case for
         times = `.` or comma-separated int64 values of the time column
    fin                                          background flush of what is still buffered    → stored=<rows> appended=<rows> | crash
    r2c <row>;<row>…   row = <tag>,…/<field>:<cell>,…   (`.` = none)                           → <name>:<len>:<sorted cells>;…
    sig <name>                                   does getColumnSignature skip this column      → skip | keep
    conv <name>:<cells>;…                        convertColumnsToTyped                         → reject | <name>:<ty>:<len>:<vlen>;…

After a panic (either goroutine) or a `mis` (uneven columns reaching array.NewRecord: outcome depends on
Go map order) the instance is `dead` until the next `new`.
-/
open Arc.Proto Arc.C04

namespace Arc.C04.Drive

structure DS where
  cfg : Cfg := { maxBuf := 1000000, wal := false }
  st : St := {}
  dead : Bool := true

def nameOf (s : String) : Option Name := (unhex s).map (fun bs => bs.map UInt8.toNat)
def hexName (n : Name) : String := hex (n.map UInt8.ofNat)

def cellOf : Char → Option Cell
  | 'n' => some .nil | 'i' => some .int | 'u' => some .ubig | 'f' => some .flt | 'g' => some .fbig
  | 's' => some .str | 'b' => some .bool | 'x' => some .other | _ => none
def cellChar : Cell → Char
  | .nil => 'n' | .int => 'i' | .ubig => 'u' | .flt => 'f' | .fbig => 'g' | .str => 's' | .bool => 'b' | .other => 'x'

def cellsOf (s : String) : Option (List Cell) :=
  if s == "." then some [] else s.toList.mapM cellOf

def tyOf : String → Option Ty
  | "i" => some .i64 | "f" => some .f64 | "s" => some .str | "b" => some .bool | _ => none
def tyStr : Ty → String
  | .i64 => "i" | .f64 => "f" | .str => "s" | .bool => "b"

def timesOf (s : String) : Option (List Int) :=
  if s == "." then some [] else (s.splitOn ",").mapM String.toInt?

def genCols (s : String) : Option (List (Name × List Cell)) :=
  if s == "." then some [] else
  (s.splitOn ";").mapM fun c =>
    match c.splitOn ":" with
    | [n, cs] => do let n ← nameOf n; let cs ← cellsOf cs; pure (n, cs)
    | _ => none

def typedCols (s : String) : Option (List Col) :=
  if s == "." then some [] else
  (s.splitOn ";").mapM fun c =>
    match c.splitOn ":" with
    | [n, t, l, v] => do
      let n ← nameOf n; let t ← tyOf t; let l ← l.toNat?; let v ← v.toNat?
      pure ⟨n, t, l, v⟩
    | _ => none

def recOf (s : String) : Option Rec :=
  match s.splitOn "|" with
  | ["N"] => some .nested
  | ["G", m, nr, ts, cols] => do
    let m ← nameOf m; let nr ← nr.toNat?; let ts ← timesOf ts; let cols ← genCols cols
    pure (.generic m cols ts nr)
  | ["T", m, nr, ts, cols] => do
    let m ← nameOf m; let nr ← nr.toNat?; let ts ← timesOf ts; let cols ← typedCols cols
    pure (.typed m ⟨cols, ts, nr⟩)
  | _ => none

def epOf : String → Option Ep
  | "msgpack" => some .msgpack | "lp" => some .lp | "tle" => some .tle | "csv" => some .csv
  | "parquet" => some .parquet | "implp" => some .implp | "imptle" => some .imptle | _ => none

def siteStr : Site → String
  | .mergeTypeAssert => "mergeTypeAssert" | .schemaName0 => "schemaName0" | .permIndex => "permIndex"
  | .permValidIndex => "permValidIndex" | .appendValuesLen => "appendValuesLen"
  | .newRecordRows => "newRecordRows" | .walEnvelope => "walEnvelope"

def classOf (st : Nat) : String := if st < 300 then "2xx" else if st < 500 then "4xx" else "5xx"

def nameLt : Name → Name → Bool
  | [], [] => false
  | [], _ :: _ => true
  | _ :: _, [] => false
  | a :: as, b :: bs => if a < b then true else if b < a then false else nameLt as bs

def insertBy {α : Type} (key : α → Name) (x : α) : List α → List α
  | [] => [x]
  | y :: ys => if nameLt (key x) (key y) then x :: y :: ys else y :: insertBy key x ys
def sortBy {α : Type} (key : α → Name) (xs : List α) : List α := xs.foldr (insertBy key) []

def cellRank (c : Cell) : Nat := (cellChar c).toNat
def sortCells (cs : List Cell) : List Cell :=
  cs.foldr (fun c acc =>
    let rec ins : List Cell → List Cell
      | [] => [c]
      | d :: ds => if cellRank c ≤ cellRank d then c :: d :: ds else d :: ins ds
    ins acc) []

def cellsStr (cs : List Cell) : String := if cs.isEmpty then "." else String.ofList (cs.map cellChar)

def fieldOf (f : String) : Option (Name × Cell) :=
  match f.splitOn ":" with
  | [n, c] =>
    match nameOf n, c.toList with
    | some n, [ch] => (cellOf ch).map (fun cell => (n, cell))
    | _, _ => none
  | _ => none

def rowOf (s : String) : Option Row :=
  match s.splitOn "/" with
  | [ts, fs] =>
    let tags : Option (List Name) := if ts == "." then some [] else (ts.splitOn ",").mapM nameOf
    let fields : Option (List (Name × Cell)) := if fs == "." then some [] else (fs.splitOn ",").mapM fieldOf
    match tags, fields with
    | some t, some f => some ⟨t, f⟩
    | _, _ => none
  | _ => none

def step (s : DS) (fs : List String) : DS × String :=
  match fs with
  | ["new", mb, wal] =>
    match mb.toNat? with
    | some mb => ({ cfg := { maxBuf := mb, wal := wal == "1" }, st := {}, dead := false }, "ok")
    | none => (s, "bad-op")
  | "req" :: ep :: db :: pre :: vm :: recs =>
    if s.dead then (s, "dead") else
    let parsed : Option Req := do
      let ep ← epOf ep
      let db ← nameOf db
      let pre ← if pre == "ok" then some none else pre.toNat?.map some
      let vm ← if vm == "*" then some [] else (vm.splitOn ",").mapM nameOf
      let recs ← recs.mapM recOf
      pure { ep := ep, db := db, pre := pre, vmeas := vm, recs := recs }
    match parsed with
    | none => (s, "bad-op")
    | some r =>
      match Arc.C04.step s.cfg s.st r with
      | .error site =>
        ({ s with dead := true }, if site.possibleOnly then "mis" else s!"- added=- rp=- crash={siteStr site}")
      | .ok (resp, st') =>
        match resp.panic with
        | some site =>
          ({ s with st := st', dead := true },
            if site.possibleOnly then "mis" else s!"{classOf resp.status} added={resp.added} rp={siteStr site} crash=-")
        | none => ({ s with st := st' }, s!"{classOf resp.status} added={resp.added} rp=- crash=-")
  | ["fin"] =>
    if s.dead then (s, "dead") else
    match drain s.st.bufs s.st with
    | .error site => ({ s with dead := true }, if site.possibleOnly then "mis" else "crash")
    | .ok st' => ({ s with st := st', dead := true }, s!"stored={st'.stored} appended={st'.appended}")
  | ["r2c", rows] =>
    match (rows.splitOn ";").mapM rowOf with
    | none => (s, "bad-op")
    | some rs =>
      let cols := sortBy (fun (p : Name × List Cell) => p.1) (rowsToColumnar rs)
      (s, ";".intercalate (cols.map fun p => s!"{hexName p.1}:{p.2.length}:{cellsStr (sortCells p.2)}"))
  | ["sig", n] =>
    match nameOf n with
    | some n => (s, if sigSkips n then "skip" else "keep")
    | none => (s, "bad-op")
  | ["conv", cols] =>
    match genCols cols with
    | none => (s, "bad-op")
    | some cs =>
      match convCols cs with
      | none => (s, "reject")
      | some out =>
        let out := sortBy (fun (c : Col) => c.name) out
        (s, if out.isEmpty then "." else
          ";".intercalate (out.map fun c => s!"{hexName c.name}:{tyStr c.ty}:{c.len}:{c.vlen}"))
  | _ => (s, "bad-op")

end Arc.C04.Drive

def main : IO Unit := Arc.Proto.run Arc.C04.Drive.step {}
