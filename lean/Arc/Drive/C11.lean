import Arc.Base.Proto
import Arc.Model.C11
/-! Model driver for C11 (reads ops on stdin, prints one line per op); runs `Arc.C11.run` with the
configuration generated from the current `retention.go`. -/
open Arc.Proto Arc.C11

structure DS where
  store : Store := []
  now : Int := 0

def parseTimes (s : String) : Option (List (Option Int)) :=
  if s == "-" then some [] else
  (s.splitOn ",").foldr (fun t acc =>
    match acc with
    | none => none
    | some l => if t == "~" then some (none :: l) else (t.toInt?).map (fun v => some v :: l)) (some [])

def insertSorted (s : String) : List String → List String
  | [] => [s]
  | a :: as => if s < a then s :: a :: as else a :: insertSorted s as

def sortStrs (l : List String) : List String := l.foldr insertSorted []

def joinOr (sep : String) (l : List String) : String := if l.isEmpty then "-" else sep.intercalate l

def stepRun (s : DS) (mode db meas ret buf : String) : DS × String :=
    match int? ret, int? buf with
    | some ret, some buf =>
      -- HTTP body flags (absent = false); `sched` = ExecutePolicy (always a real run)
      let fl : Option (Bool × Bool) :=
        if mode == "dry" then some (true, false)
        else if mode == "http" then some (false, true)
        else if mode == "nocf" then some (false, false)
        else match mode.toList with
          | ['x', ':', d, c] =>
            if (d == 't' || d == 'f' || d == 'a') && (c == 't' || c == 'f' || c == 'a') then some (d == 't', c == 't') else none
          | _ => none
      if mode != "sched" && fl.isNone then (s, "bad-op") else
      let pol : Policy := { db := db.toList, meas := if meas == "*" then none else some meas.toList, ret := ret, buf := buf }
      if !policyValid pol then (s, "rejected") else
      let (st, r?) :=
        match fl with
        | some (dflag, cflag) => execHttp Arc.Generated.C11.dryGate srcCfg dflag cflag s.store pol s.now
        | none => ((run srcCfg false s.store pol s.now).1, some (run srcCfg false s.store pol s.now).2)
      match r? with
      | none => ({ s with store := st }, "err=400")
      | some r =>
        ({ s with store := st },
         s!"ok cutoff={r.cutoff / 1000000000} rows={r.rows} files={r.files} meas={joinOr "," (sortStrs (r.meas.map String.ofList))}")
    | _, _ => (s, "bad-op")

def stepC11 (s : DS) (fs : List String) : DS × String :=
  match fs with
  | ["reset"] => ({ s with store := [] }, "ok")
  | ["file", path, times] =>
    match parseTimes times with
    | some ts =>
      let p := path.toList
      ({ s with store := (s.store.filter (fun f => f.path != p)) ++ [{ path := p, times := ts }] }, "ok")
    | none => (s, "bad-op")
  | ["replace", path, times] =>
    match parseTimes times with
    | some ts =>
      let p := path.toList
      ({ s with store := s.store.map (fun f => if f.path == p then { f with times := ts } else f) }, "ok")
    | none => (s, "bad-op")
  | ["del", db, meas, x] =>
    -- external event from retention's point of view: the DELETE API (C10 semantics, predicate
    -- `epoch_us(time) >= x`; NULL times make it NULL ⇒ row kept) on the files listed under db/meas/
    match int? x with
    | some x =>
      let pre := measPrefix true db.toList meas.toList
      let hit (t : Option Int) : Bool := match t with | some v => decide (x ≤ v) | none => false
      let aff (f : PFile) : Bool := pre.isPrefixOf f.path && isParquet f.path && f.times.any hit
      let n := ((s.store.filter aff).map (fun f => (f.times.filter hit).length)).sum
      let st := s.store.filterMap (fun f =>
        if aff f then
          (let keep := f.times.filter (fun t => !hit t)
           if keep.isEmpty then none else some { f with times := keep })
        else some f)
      ({ s with store := st }, s!"ok deleted={n}")
    | none => (s, "bad-op")
  | ["rm", path] => ({ s with store := s.store.filter (fun f => f.path != path.toList) }, "ok")
  | ["now", ns] =>
    match int? ns with
    | some ns => ({ s with now := ns }, "ok")
    | none => (s, "bad-op")
  | ["ls"] => (s, joinOr " " (sortStrs (s.store.map (fun f => String.ofList f.path))))
  | ["filegen", path, start, step, n, _rg] =>
    match int? start, int? step, nat? n with
    | some start, some step, some n =>
      let ts := (List.range n).map (fun (k : Nat) => some (start + Int.ofNat k * step))
      let p := path.toList
      ({ s with store := (s.store.filter (fun f => f.path != p)) ++ [{ path := p, times := ts }] }, "ok")
    | _, _, _ => (s, "bad-op")
  -- a killed run leaves a `running` execution row; a restart creates a new handler: neither is read by
  -- a later run (C11_run_after_crash), so the model's store and answers are unchanged
  | ["crash", _pol, _point] => (s, "ok")
  | ["restart"] => (s, "ok")
  | ["prun", mode, _pol, db, meas, ret, buf] => stepRun s mode db meas ret buf
  | ["run", mode, db, meas, ret, buf] => stepRun s mode db meas ret buf
  | _ => (s, "bad-op")

def main : IO Unit := Arc.Proto.run stepC11 {}
