import Arc.Base.Proto
import Arc.Model.C08
/-! Model driver for C08 (reads ops on stdin, prints one line per op). -/
open Arc.Proto Arc.C08

namespace Arc.C08.Drive

def hx (b : Bytes) : String := hex b

def relStr : RelResult → String
  | .ok r => "ok " ++ hx r
  | .err => "err"

def vStr : VResult → String
  | .ok p => "ok " ++ hx p
  | .needsCwd => "err:cwd"
  | .relFailed => "err:rel"
  | .escapes => "err:escape"
  | .rootKey => "err:rootkey"

def mStr : MResult → String
  | .ok => "ok" | .empty => "empty" | .tooLong => "toolong" | .nul => "nul"
  | .scheme => "scheme" | .absolute => "absolute" | .traversal => "traversal"

def sStr : SResult → String
  | .ok => "ok" | .empty => "empty" | .separator => "separator" | .dot => "dot" | .nul => "nul"

def pStr : PResult → String
  | .ok => "ok" | .empty => "empty" | .nul => "nul" | .absolute => "absolute"
  | .backslash => "backslash" | .dotdot => "dotdot" | .emptySegment => "emptyseg"
  | .leadingDot => "leadingdot" | .notParquet => "notparquet"

/-- deterministic test contents, same formulas as the harness -/
def genData (n seed : Nat) : Bytes :=
  (List.range n).map (fun i => UInt8.ofNat ((i * 131 + seed * 17 + i / 251) % 256))
def genOld (n : Nat) : Bytes := (List.range n).map (fun i => UInt8.ofNat ((i * 7 + 3) % 256))
def genPart (n : Nat) : Bytes := (List.range n).map (fun i => UInt8.ofNat ((i * 13 + 5) % 256))

def hashBytes (b : Bytes) : Nat := b.foldl (fun h c => (h * 31 + c.toNat + 1) % 4294967296) 7

def fileStr : Option Bytes → String
  | none => "x"
  | some c => s!"{c.length}:{hashBytes c}"

def finalName : Bytes := "/r/d/f".toUTF8.toList
def tmpName : Bytes := "/r/d/.arc-T.tmp".toUTF8.toList

def lenArg (s : String) : Option (Option Nat) :=
  if s == "x" then some none else (nat? s).map some

structure Scn where
  procName : String
  fs0 : FS
  staging : Bytes
  data : Bytes
  part0 : Bytes
  asz : Int

def mkScn (procName pre part0 n seed asz : String) : Option Scn :=
  match lenArg pre, lenArg part0, nat? n, nat? seed, int? asz with
  | some pre, some part0, some n, some seed, some asz =>
    if procName ≠ "write" ∧ procName ≠ "wreader" ∧ procName ≠ "append" ∧ procName ≠ "writeR"
        ∧ procName ≠ "wreaderR" then none else
    let staging := if procName = "write" ∨ procName = "writeR" then tmpName else partPath finalName
    let fs0 : FS := FS.empty
    let fs0 := match pre with | some l => fs0.set finalName (genOld l) | none => fs0
    let fs0 := match part0 with | some l => fs0.set staging (genPart l) | none => fs0
    some { procName := procName, fs0 := fs0, staging := staging, data := genData n seed,
           part0 := (match part0 with | some l => genPart l | none => []), asz := asz }
  | _, _, _, _, _ => none

def opsFor (s : Scn) (chunks : List Bytes) : List Op :=
  if s.procName = "write" then writeOps finalName tmpName chunks
  else if s.procName = "writeR" then writeRetryOps finalName tmpName chunks
  else if s.procName = "wreader" then writeReaderOps finalName chunks
  else if s.procName = "wreaderR" then writeReaderRetryOps finalName chunks
  else appendReaderOps finalName chunks s.asz

def cut (data : Bytes) (c : Nat) : List Bytes :=
  [data.take c, data.drop c].filter (fun x => x ≠ [])

def allOk (fs : FS) : List Op → Bool
  | [] => true
  | o :: os => match step fs o with | some fs' => allOk fs' os | none => false

def stateStr (s : Scn) (fs : FS) : String :=
  s!"final={fileStr (fs finalName)} stage={fileStr (fs s.staging)}"

def parseObs (s : String) : Option (Option (Nat × Nat)) :=
  if s == "x" then some none else
  match s.splitOn ":" with
  | [a, b] => match nat? a, nat? b with
    | some a, some b => some (some (a, b))
    | _, _ => none
  | _ => none

def obsOf : Option Bytes → Option (Nat × Nat)
  | none => none
  | some c => some (c.length, hashBytes c)

def step' (fs : List String) : String :=
  match fs with
  | ["san", k] => match unhex k with | some k => hx (sanitize k) | none => "bad-op"
  | ["clean", k] => match unhex k with | some k => hx (clean k) | none => "bad-op"
  | ["join", a, b] => match unhex a, unhex b with
    | some a, some b => hx (fpJoin a b) | _, _ => "bad-op"
  | ["rel", a, b] => match unhex a, unhex b with
    | some a, some b => relStr (rel a b) | _, _ => "bad-op"
  | ["vp", a, b] => match unhex a, unhex b with
    | some a, some b => vStr (validatePath a b) | _, _ => "bad-op"
  | ["vfp", a, b] => match unhex a, unhex b with
    | some a, some b => vStr (validateFilePath a b) | _, _ => "bad-op"
  | ["mp", k] => match unhex k with | some k => mStr (validateManifestPath k) | none => "bad-op"
  | ["sid", k] => match unhex k with | some k => sStr (validateSpokeID k) | none => "bad-op"
  | ["sp", k] => match unhex k with | some k => pStr (validateSyncPath k) | none => "bad-op"
  | ["ns", a, b] => match unhex a, unhex b with
    | some a, some b => hx (namespacedPath a b) | _, _ => "bad-op"
  | ["stg", a, b] => match unhex a, unhex b with
    | some a, some b => hx (stagingPathFor a b) | _, _ => "bad-op"
  | ["run", procName, pre, part0, n, seed, asz] =>
    match mkScn procName pre part0 n seed asz with
    | none => "bad-op"
    | some s =>
      let ops := opsFor s (cut s.data s.data.length)
      s!"{stateStr s (run s.fs0 ops)} ok={allOk s.fs0 ops}"
  | ["crash", procName, pre, part0, n, seed, asz, obsF, obsS] =>
    match mkScn procName pre part0 n seed asz, parseObs obsF, parseObs obsS with
    | some s, some oF, some oS =>
      let j := match oS with | some (l, _) => l | none => 0
      let cuts := [j, j - s.part0.length, 0, s.data.length].eraseDups
      let hit := cuts.any fun c =>
        (crashStates s.fs0 (opsFor s (cut s.data c))).any fun fs =>
          obsOf (fs finalName) == oF && obsOf (fs s.staging) == oS
      if hit then "allowed" else "forbidden"
    | _, _, _ => "bad-op"
  | _ => "bad-op"

def stepC08 (s : Unit) (fs : List String) : Unit × String := (s, step' fs)

end Arc.C08.Drive

def main : IO Unit := Arc.Proto.run Arc.C08.Drive.stepC08 ()
