import Arc.Base.Proto
import Arc.Model.C18
/-! Model driver for C18 (reads ops on stdin, prints one line per op).

ops
  now <ns>                                  set the clock
  reset                                     drop all tables and cached plans
  file <tbl> <h|d> <idx> <n> (<rid> <t_us> <c1_us> <c2_us> <v>)*n     add a file to a table
  lit <fmt> <y> <mo> <d> <hh> <mi> <ss> <fracNs> <offSec>             parseDateTime vs DuckDB cast
  rel <+|-> <n> <unit> <capS>               evaluateRelativeTime vs DuckDB interval arithmetic (at `now`)
  rmpart <tbl> <h|d> <idx> <keepFirst 0|1>  delete the files of a partition (all, or all but the first)
  inval                                     the real QueryHandler.InvalidateCaches (post-compaction hook)
  paths <startNs> <endNs> <incl 0|1>        GeneratePartitionPaths (TimeRange.EndInclusive)
  ext <pred>                                ExtractTimeRange of `SELECT … WHERE <pred>`
  q|qc <qid> <kind> <hdr> <alias> <pred> [<pred>]      query (q: caches invalidated first; qc: caches kept)
       kind s single table · j join (pred on a) · u union (two preds) · b/B IN-subquery (inner, outer; b = subquery first)
pred := A <batom> | & <pred> <pred> | | <pred> <pred> | ! <pred>
batom := c <col> <op> <rhs> | b <col> <rhs> <rhs>
col := t | q | e | s | v        op := ge | gt | lt | le
rhs := L <fmt> <y> <mo> <d> <hh> <mi> <ss> <fracNs> <offSec> | R <+|-> <n> <unit> <capS 0|1> | N <k>
-/
open Arc.Proto Arc.C18 Arc.Generated.C18

structure Entry where
  setAt : Int
  plans : List (String × Plan)

structure DS where
  now : Int := 0
  tables : List (String × Dataset) := []
  cache : List (String × Entry) := []

def parseCol : String → Option Col
  | "t" => some .time | "q" => some .timeQuoted | "e" => some .likeTime | "s" => some .likeTs | "v" => some .plain
  | _ => none

def parseOp : String → Option Cmp
  | "ge" => some .ge | "gt" => some .gt | "lt" => some .lt | "le" => some .le | _ => none

def parseUnit : String → Option TUnit
  | "second" => some .second | "minute" => some .minute | "hour" => some .hour
  | "day" => some .day | "week" => some .week | "month" => some .month | _ => none

def parseLit : List String → Option (Lit × List String)
  | f :: y :: mo :: d :: hh :: mi :: ss :: fr :: off :: rest =>
    match nat? f, int? y, int? mo, int? d, int? hh, int? mi, int? ss, int? fr, int? off with
    | some f, some y, some mo, some d, some hh, some mi, some ss, some fr, some off =>
      some ({ fmt := f, y := y, mo := mo, d := d, hh := hh, mi := mi, ss := ss, frac := fr, off := off }, rest)
    | _, _, _, _, _, _, _, _, _ => none
  | _ => none

def parseRhs : List String → Option (Rhs × List String)
  | "L" :: rest => (parseLit rest).map fun (l, r) => (.lit l, r)
  | "R" :: sg :: n :: u :: cs :: rest =>
    match nat? n, parseUnit u with
    | some n, some u =>
      if cs != "0" && cs != "1" then none else
      if sg == "+" then some (.rel true n u (cs == "1"), rest) else if sg == "-" then some (.rel false n u (cs == "1"), rest) else none
    | _, _ => none
  | "N" :: k :: rest => (int? k).map fun k => (.num k, rest)
  | _ => none

def parseBAtom : List String → Option (BAtom × List String)
  | "c" :: c :: o :: rest =>
    match parseCol c, parseOp o, parseRhs rest with
    | some c, some o, some (r, rest) => some (.cmp c o r, rest)
    | _, _, _ => none
  | "b" :: c :: rest =>
    match parseCol c, parseRhs rest with
    | some c, some (lo, rest) =>
      match parseRhs rest with
      | some (hi, rest) => some (.between c lo hi, rest)
      | none => none
    | _, _ => none
  | _ => none

def parsePred : Nat → List String → Option (Pred × List String)
  | 0, _ => none
  | n+1, "A" :: rest => (parseBAtom rest).map fun (b, r) => (.atom (.base b), r)
  | n+1, "&" :: rest =>
    match parsePred n rest with
    | some (p, r) => (parsePred n r).map fun (q, r2) => (.and p q, r2)
    | none => none
  | n+1, "|" :: rest =>
    match parsePred n rest with
    | some (p, r) => (parsePred n r).map fun (q, r2) => (.or p q, r2)
    | none => none
  | n+1, "!" :: rest => (parsePred n rest).map fun (p, r) => (.not p, r)
  | _, _ => none

def parseRows : Nat → List String → Option (List Row)
  | 0, [] => some []
  | n+1, _rid :: t :: c1 :: c2 :: v :: rest =>
    match int? t, int? c1, int? c2, int? v, parseRows n rest with
    | some t, some c1, some c2, some v, some rs =>
      some ({ time := t * 1000, c1 := c1 * 1000, c2 := c2 * 1000, v := v } :: rs)
    | _, _, _, _, _ => none
  | _, _ => none

def optNs : Option Int → String
  | some x => toString x
  | none => "err"

def rangeStr : Option (Int × Int × Bool) → String
  | some (s, e, i) => s!"{s},{e},{if i then 1 else 0}"
  | none => "none"

def partStr : Part → String
  | .hour h => renderHour h
  | .day d => renderDay d

def sortStrs (xs : List String) : List String := (xs.toArray.qsort (fun a b => a < b)).toList

def planStr : Plan → String
  | none => "ALL"
  | some ps => ",".intercalate (sortStrs (ps.map partStr))

def hashStr (h : Nat) (s : String) : Nat :=
  s.toList.foldl (fun acc c => (acc * 131 + c.toNat) % 1000000007) h

def pathsStr : Option Paths → String
  | none => "nil"
  | some ps =>
    if ps.hours.isEmpty then "n=0" else
    let hs := ps.hours
    let dsx := ps.days
    let h := dsx.foldl (fun acc d => hashStr acc (renderDay d)) (hs.foldl (fun acc x => hashStr acc (renderHour x)) 7)
    s!"n={hs.length} d={dsx.length} first={renderHour (hs.headD 0)} last={renderHour (hs.getLastD 0)} dfirst={renderDay (dsx.headD 0)} dlast={renderDay (dsx.getLastD 0)} hash={h}"

def table (s : DS) (name : String) : Dataset := (s.tables.lookup name).getD []

def setTable (s : DS) (name : String) (ds : Dataset) : DS :=
  { s with tables := (name, ds) :: s.tables.filter (fun p => p.1 != name) }

def σ1 : Valuation := fun _ _ => true

/-- plans for the tables a statement references (all pruned with the same text). -/
def plansFor (s : DS) (rng : Option (Int × Int × Bool)) (tbls : List String) : List (String × Plan) :=
  tbls.map fun t => (t, planFor rng (table s t))

def lookupPlan (plans : List (String × Plan)) (t : String) : Plan := (plans.lookup t).getD none

def runQuery (s : DS) (cached : Bool) (qid kind : String) (preds : List Pred) : DS × String :=
  let p1 := preds.headD (.atom (.base (.opaque 0)))
  let p2 := (preds.drop 1).headD (.atom (.base (.opaque 0)))
  -- single-table statements: ExtractTimeRange of the statement; anything else (JOIN, UNION, subquery): nil
  let rng : Option (Int × Int × Bool) := if kind == "s" then extractStmt s.now p1 else multiTableRange
  let tbls := if kind == "s" || kind == "u" then ["cpu"] else ["cpu", "mem"]
  let hit : Option Entry :=
    if cached then
      match s.cache.lookup qid with
      | some e => if cacheValid e.setAt s.now then some e else none
      | none => none
    else none
  let plans := match hit with
    | some e => e.plans
    | none => plansFor s rng tbls
  let cache' := match hit with
    | some _ => s.cache
    | none => (qid, { setAt := s.now, plans := plans }) :: (if cached then s.cache.filter (fun p => p.1 != qid) else [])
  let cpu := table s "cpu"
  let mem := table s "mem"
  let rc := rowsOf (readWith (lookupPlan plans "cpu") cpu)
  let rm := rowsOf (readWith (lookupPlan plans "mem") mem)
  let ev (p : Pred) (r : Row) : Bool := p.eval s.now σ1 r
  let (np, nf) : Nat × Nat :=
    match kind with
    | "s" => ((rc.filter (ev p1)).length, ((rowsOf cpu).filter (ev p1)).length)
    | "j" => ((runJoinWith s.now σ1 p1 rc rm).length, (runJoinWith s.now σ1 p1 (rowsOf cpu) (rowsOf mem)).length)
    | "u" => ((rc.filter (ev p1)).length + (rc.filter (ev p2)).length,
              ((rowsOf cpu).filter (ev p1)).length + ((rowsOf cpu).filter (ev p2)).length)
    | _ =>
      -- p1 = inner predicate over mem, p2 = outer predicate over cpu
      let valsP := (rm.filter (ev p1)).map (·.v)
      let valsF := ((rowsOf mem).filter (ev p1)).map (·.v)
      ((rc.filter (fun r => valsP.contains r.v && ev p2 r)).length,
       ((rowsOf cpu).filter (fun r => valsF.contains r.v && ev p2 r)).length)
  let broken := planBroken (lookupPlan plans "cpu") cpu || (tbls.contains "mem" && planBroken (lookupPlan plans "mem") mem)
  let npS := if broken then "err" else toString np
  let planS := " ".intercalate (plans.map fun (t, pl) => s!"plan[{t}]={planStr pl}")
  ({ s with cache := cache' }, s!"range={rangeStr rng} {planS} rows={npS}/{nf}")

def parsePreds (n : Nat) (ts : List String) : Option (List Pred) :=
  match n with
  | 0 => if ts.isEmpty then some [] else none
  | n+1 =>
    match parsePred 64 ts with
    | some (p, rest) => (parsePreds n rest).map (p :: ·)
    | none => none

def stepC18 (s : DS) (fs : List String) : DS × String :=
  match fs with
  | ["now", t] =>
    match int? t with
    | some t => ({ s with now := t }, "ok")
    | none => (s, "bad-op")
  | ["reset"] => ({ s with tables := [], cache := [] }, "ok")
  | ["inval"] => ({ s with cache := if survivesInvalidate then s.cache else [] }, "ok")
  | ["rmpart", tbl, kind, idx, keep] =>
    match int? idx with
    | some idx =>
      if (kind != "h" && kind != "d") || (keep != "0" && keep != "1") then (s, "bad-op") else
      let part := if kind == "h" then Part.hour idx else Part.day idx
      let ds := table s tbl
      let mine := ds.filter (fun f => decide (f.part = part))
      let kept := if keep == "1" then mine.take 1 else []
      -- keep the first file of the partition at its position, drop the others
      let rec go (fs : List File) (seen : Bool) : List File :=
        match fs with
        | [] => []
        | f :: rest =>
          if decide (f.part = part) then
            (if !seen && !kept.isEmpty then f :: go rest true else go rest true)
          else f :: go rest seen
      (setTable s tbl (go ds false), "ok")
    | none => (s, "bad-op")
  | "file" :: tbl :: kind :: idx :: n :: rest =>
    match int? idx, nat? n with
    | some idx, some n =>
      match parseRows n rest with
      | some rows =>
        let part := if kind == "h" then Part.hour idx else Part.day idx
        if kind != "h" && kind != "d" then (s, "bad-op") else
        (setTable s tbl (table s tbl ++ [{ part := part, rows := rows }]), "ok")
      | none => (s, "bad-op")
    | _, _ => (s, "bad-op")
  | "lit" :: rest =>
    match parseLit rest with
    | some (l, []) => (s, s!"go={optNs l.go} db={optNs l.db}")
    | _ => (s, "bad-op")
  | ["rel", sg, n, u, cs] =>
    match nat? n, parseUnit u with
    | some n, some u =>
      if (sg != "+" && sg != "-") || (cs != "0" && cs != "1") then (s, "bad-op") else
      let r := Rhs.rel (sg == "+") n u (cs == "1")
      (s, s!"go={optNs (r.go s.now)} db={r.db s.now}")
    | _, _ => (s, "bad-op")
  | ["paths", a, b, i] =>
    match int? a, int? b with
    | some a, some b =>
      if i != "0" && i != "1" then (s, "bad-op") else (s, pathsStr (generatePaths a b (i == "1")))
    | _, _ => (s, "bad-op")
  | "ext" :: rest =>
    match parsePred 64 rest with
    | some (p, []) => (s, rangeStr (extractStmt s.now p))
    | _ => (s, "bad-op")
  | op :: qid :: kind :: _hdr :: _alias :: rest =>
    if op != "q" && op != "qc" then (s, "bad-op") else
    if !(["s", "j", "u", "b", "B"].contains kind) then (s, "bad-op") else
    let n := if kind == "s" || kind == "j" then 1 else 2
    match parsePreds n rest with
    | some ps => runQuery s (op == "qc") qid kind ps
    | none => (s, "bad-op")
  | _ => (s, "bad-op")

def main : IO Unit := Arc.Proto.run stepC18 {}
