import Arc.Base.Proto
import Arc.Model.C16
/-! Model driver for C16: `fresh` (new handler = empty transform cache) and
`rw <hdr|-> <tok>*` with tokens `<kind><hex>` (kinds w s p n l q b c). Prints the rewritten text. -/
open Arc.Proto Arc.C16

def bytesToStr (bs : List UInt8) : Str := bs.map fun b => Char.ofNat b.toNat

def parseTok (f : String) : Option Tok :=
  match f.toList with
  | k :: hexs =>
    match unhexAux hexs [] with
    | none => none
    | some bs =>
      let s := bytesToStr bs
      match k with
      | 'w' => some (.w s) | 's' => some (.s s) | 'n' => some (.n s) | 'l' => some (.l s)
      | 'q' => some (.q s) | 'b' => some (.b s) | 'c' => some (.c s)
      | 'p' => match s with | [c] => some (.p c) | _ => none
      | _ => none
  | [] => none

def parseToks : List String → Option (List Tok)
  | [] => some []
  | f :: rest => match parseTok f, parseToks rest with
    | some t, some ts => some (t :: ts)
    | _, _ => none

def escOut (s : Str) : String :=
  String.ofList (s.flatMap fun c =>
    if c == '\\' then ['\\', '\\'] else if c == '\n' then ['\\', 'n'] else if c == '\t' then ['\\', 't']
    else if c == '\r' then ['\\', 'r'] else [c])

structure DS where
  cache : List (Str × Str) := []

def stepC16 (st : DS) (fs : List String) : DS × String :=
  match fs with
  | ["fresh"] => ({}, "ok")
  | "rw" :: h :: toks =>
    match parseToks toks with
    | none => (st, "bad-op")
    | some ts =>
      let hdr : Option Str := if h == "-" then none else some h.toList
      let (out, cache') := rewriteCached st.cache hdr ts
      ({ cache := cache' }, escOut out)
  | _ => (st, "bad-op")

def main : IO Unit := Arc.Proto.run stepC16 {}
