import Arc.Base.Proto
import Arc.Model.C22.Wire
/-! Model driver for C22 (reads ops on stdin, prints one line per op). -/
def main : IO Unit := Arc.Proto.run Arc.C22.Wire.step Arc.C22.Wire.DS.init
