import Arc.Base.Proto
import Arc.Model.C17
import Arc.Generated.C17
/-! Model driver for C17 (reads ops on stdin, prints one line per op).

ops
  dtcfg <unit> <col>                       → `keep` | rewritten SQL text of `date_trunc('<unit>', <col>)`
  tbcfg <amount> <unitword> <col> <originhex|->  → `keep` | rewritten SQL text of `time_bucket(...)`
  t <µs>                                   → `o=<orig µs> n=<rewritten µs>` under the current cfg
  fn epoch <µs> | fn tots <x> | fn idiv <a> <b> | fn origin <hex> | fn its <amount> <unit>
  like <endOk> <clause>                    → `sql=<rewritten clause> o=<T/F/N per row> n=<…>`
  urlcfg <r|e> <col> <hex of original call> → CASE text (r = REGEXP_REPLACE form, e = REGEXP_EXTRACT form)
  url <hex|NULL>                           → `rep= ext= caseR= caseE=` (hex|NULL each)
-/
open Arc.Proto Arc.C17

namespace C17D

structure Cfg where
  kept : Bool := true
  isDt : Bool := true
  unit : TUnit := .second
  W : Int := 1          -- original width, µs
  O : Int := 0          -- original origin, µs
  o : Int := 0          -- originEpoch in the rewrite
  s : Int := 1          -- seconds in the rewrite
  three : Bool := false

def unhexStr (h : String) : Option String :=
  (unhex h).bind fun bs => String.fromUTF8? (ByteArray.mk bs.toArray)

def origVal (c : Cfg) (t : Int) : Int :=
  if c.isDt then dateTrunc c.unit t else timeBucket c.W c.O t

def newVal (c : Cfg) (t : Int) : Int :=
  if c.kept then origVal c t
  else if c.isDt then rewrite2 semF Arc.Generated.C17.dtExpr c.s t
  else if c.three then rewrite3 semF Arc.Generated.C17.tb3Expr c.o c.s t
  else rewrite2 semF Arc.Generated.C17.tb2Expr c.s t

def wrap64 (x : Int) : Int := (x + 2 ^ 63) % 2 ^ 64 - 2 ^ 63

def argVal (name col : String) (o s : Int) : String :=
  if name == "column" then col else if name == "originEpoch" then toString o else if name == "seconds" then toString s
  -- Go computes these two in int64 (wrapping); the values only matter for absurd widths (> 292 000 years),
  -- which DuckDB rejects as interval literals — modelled for the text correspondence only.
  else if name == "widthMicros" then toString (wrap64 (s * 1000000))
  else if name == "originMicros" then
    (if wrap64 (s * 1000000) == 0 then "?" else toString (Int.tmod (wrap64 (o * 1000000)) (wrap64 (s * 1000000))))
  else "?"

def render (fmt : String) (args : List String) (col : String) (o s : Int) : String :=
  renderFmt fmt.toList (args.map fun a => argVal a col o s)

/-! LIKE clause decoding / rendering / evaluation -/

def digit? (c : Char) : Option Nat := if c.isDigit then some (c.toNat - '0'.toNat) else none

mutual
partial def pFac : List Char → Option (Expr × List Char)
  | '!' :: r => (pFac r).map fun (e, r') => (.not e, r')
  | '(' :: r =>
    match pFac r with
    | some (a, op :: r1) =>
      match pFac r1 with
      | some (b, ')' :: r2) =>
        if op == '&' then some (.and a b, r2) else if op == '|' then some (.or a b, r2) else none
      | _ => none
    | _ => none
  | 'L' :: c :: p :: r => do let c ← digit? c; let p ← digit? p; pure (.atom (.like c p), r)
  | 'N' :: c :: p :: r => do let c ← digit? c; let p ← digit? p; pure (.atom (.notLike c p), r)
  | 'Q' :: c :: p :: r => do let c ← digit? c; let p ← digit? p; pure (.atom (.eq c p), r)
  | 'E' :: c :: r => do let c ← digit? c; pure (.atom (.nonEmpty c), r)
  | _ => none
end

partial def pConj (cs : List Char) : Option (List Expr × List Char) :=
  match pFac cs with
  | some (f, '&' :: r) => (pConj r).map fun (fs, r') => (f :: fs, r')
  | some (f, r) => some ([f], r)
  | none => none

partial def pWhere (cs : List Char) : Option Where :=
  match pConj cs with
  | some (c, '|' :: r) => (pWhere r).map fun w => c :: w
  | some (c, []) => some [c]
  | _ => none

def pats : List String := ["%google%", "%.google.%", "abc%", "%"]
def vals : List String := ["abc", "", "google"]
def cellVals : List (Option String) := [none, some "", some "google", some "a.google.b", some "abc"]

def rAtom : Atom → String
  | .like c p => s!"c{c} LIKE '{pats.getD p ""}'"
  | .notLike c p => s!"c{c} NOT LIKE '{pats.getD p ""}'"
  | .nonEmpty c => s!"c{c} <> ''"
  | .eq c p => s!"c{c} = '{vals.getD p ""}'"

def rFac : Expr → String
  | .atom a => rAtom a
  | .not e => "NOT " ++ rFac e
  | .and a b => "(" ++ rFac a ++ " AND " ++ rFac b ++ ")"
  | .or a b => "(" ++ rFac a ++ " OR " ++ rFac b ++ ")"

def rWhere (w : Where) : String :=
  " OR ".intercalate (w.map fun c => " AND ".intercalate (c.map rFac))

partial def likeMatch : List Char → List Char → Bool
  | [], [] => true
  | [], _ => false
  | '%' :: p, s => likeMatch p s || (match s with | [] => false | _ :: s' => likeMatch ('%' :: p) s')
  | _ :: _, [] => false
  | c :: p, c' :: s => c == c' && likeMatch p s

def cell (row : Nat) (col : Nat) : Option String :=
  let i := if col == 0 then row / 25 else if col == 1 then (row / 5) % 5 else row % 5
  cellVals.getD i none

def atomVal (row : Nat) : Atom → B3
  | .like c p => (cell row c).map fun s => likeMatch (pats.getD p "").toList s.toList
  | .notLike c p => (cell row c).map fun s => !(likeMatch (pats.getD p "").toList s.toList)
  | .nonEmpty c => (cell row c).map fun s => s != ""
  | .eq c p => (cell row c).map fun s => s == vals.getD p ""

def b3c : B3 → Char
  | some true => 'T' | some false => 'F' | none => 'N'

def truth (w : Where) : String :=
  String.ofList ((List.range 125).map fun r => b3c (evalW (atomVal r) w))

def hexOpt : Option Bytes → String
  | none => "NULL"
  | some b => hex b

end C17D

open C17D

def stepC17 (c : Cfg) (fs : List String) : Cfg × String :=
  match fs with
  | ["dtcfg", unit, col] =>
    match TUnit.ofString? unit.toLower with
    | none => (c, "bad-op")
    | some u =>
      let s := intervalToSeconds Arc.Generated.C17.unitTable 1 unit.toLower
      let kept := (col.toList.contains '(') || s == 0
      let c' : Cfg := { kept := kept, isDt := true, unit := u, s := s }
      (c', if kept then "keep" else render Arc.Generated.C17.dtFmt Arc.Generated.C17.dtArgs col 0 s)
  | ["tbcfg", amount, unitw, col, originHex] =>
    -- amount: plain, or `h:<hex>` when it contains blanks. The trigger regexes capture `(\d+)` right after the
    -- quote, so anything that is not all ASCII digits is simply not rewritten.
    let amountStr := if amount.startsWith "h:" then unhexStr (amount.drop 2).toString else some amount
    match amountStr, (if originHex == "-" then some "" else unhexStr originHex) with
    | some astr, some origin =>
      -- `'(\\d+)\\s*(unit)'`: blanks between the digits and the unit word belong to `\\s*`
      match digitsVal (astr.toList.reverse.dropWhile Char.isWhitespace).reverse with
      | none => ({ c with kept := true, isDt := false }, "keep")
      | some n =>
        let three := originHex != "-"
        let nu := normUnit unitw
        let s := intervalToSeconds Arc.Generated.C17.unitTable n nu
        -- DuckDB's own reading of the interval unit (case-insensitive, plural allowed)
        let lw := unitw.toLower
        let lw := if lw.toList.getLast? = some 's' then String.ofList lw.toList.dropLast else lw
        let W : Int := (n : Int) * ((TUnit.ofString? lw).map TUnit.secs).getD 0 * usPerSec
        let po := if three then parseOrigin origin else some (0, 0)
        let (osec, ofrac) := po.getD (0, 0)
        -- `if originTime.Nanosecond() != 0 { return match }` (since c931596)
        let kept := (col.toList.contains '(') || s == 0 || po.isNone || (three && ofrac != 0)
        let O : Int := if three then osec * usPerSec + ofrac else defaultOriginUs
        let c' : Cfg := { kept := kept, isDt := false, W := W, O := O, o := osec, s := s, three := three }
        (c', if kept then "keep"
             else if three then render Arc.Generated.C17.tb3Fmt Arc.Generated.C17.tb3Args col osec s
             else render Arc.Generated.C17.tb2Fmt Arc.Generated.C17.tb2Args col 0 s)
    | _, _ => (c, "bad-op")
  | ["t", t] =>
    match int? t with
    | some t => (c, s!"o={origVal c t} n={newVal c t}")
    | none => (c, "bad-op")
  | ["fn", "epoch", t] =>
    match int? t with
    | some t => (c, s!"d={(epochF t).canon} i={epochBigintF t} x={if epochBigintF t = epochBigintX t then 1 else 0}")
    | none => (c, "bad-op")
  | ["fn", "tots", x] =>
    match int? x with
    | some x => (c, s!"{toTimestampF x} x={if toTimestampF x = toTimestampX x then 1 else 0}")
    | none => (c, "bad-op")
  | ["fn", "idiv", a, b] =>
    match int? a, int? b with
    | some a, some b => (c, if b = 0 then "NULL" else s!"{Int.tdiv a b}")
    | _, _ => (c, "bad-op")
  | ["fn", "origin", h] =>
    match unhexStr h with
    | some s => (c, match parseOrigin s with | some (sec, fr) => s!"{sec} {fr}" | none => "err")
    | none => (c, "bad-op")
  | ["fn", "its", amount, unit] =>
    match digitsVal amount.toList with
    | some n => (c, s!"{intervalToSeconds Arc.Generated.C17.unitTable n unit}")
    | none => (c, "bad-op")
  | ["like", endOk, enc] =>
    match pWhere enc.toList with
    | some w =>
      let w' := optimize (endOk == "1") w
      (c, s!"sql={rWhere w'} o={truth w} n={truth w'}")
    | none => (c, "bad-op")
  | ["urlcfg", kind, col, callHex] =>
    match unhexStr callHex with
    | some call =>
      let needSlash := kind == "r"
      let like := if needSlash then Arc.Generated.C17.caseLikeTailSlash else Arc.Generated.C17.caseLikeTail
      let guard := if needSlash then renderFmt Arc.Generated.C17.caseGuardFmt.toList [col] else ""
      let arms := (Arc.Generated.C17.casePrefixes.zip Arc.Generated.C17.caseArmsTbl).map fun (p, (_, k)) =>
        renderFmt Arc.Generated.C17.caseWhenFmt.toList [col, p, like, col, toString k, guard, col, toString k]
      (c, "CASE " ++ String.join arms ++ "ELSE " ++ call ++ " END")
    | none => (c, "bad-op")
  | ["url", h] =>
    if h == "NULL" then (c, "rep=NULL ext=NULL caseR=NULL caseE=NULL") else
    match unhex h with
    | some b =>
      (c, s!"rep={hex (regexReplace b)} ext={hex (regexExtract b)} caseR={hex (caseGuarded true regexReplace Arc.Generated.C17.caseArmsTbl b)} caseE={hex (caseGuarded false regexExtract Arc.Generated.C17.caseArmsTbl b)}")
    | none => (c, "bad-op")
  | _ => (c, "bad-op")

def main : IO Unit := Arc.Proto.run stepC17 {}
