import Arc.Base.Proto
import Arc.Model.C05
/-! Model driver for C05: `u …` ops = data part (live rows / WAL entry kind / replayed rows of one unit),
`t.…` ops = crash LTS (every recorded event must be enabled; `t.obs` prints the stored multiset). -/
open Arc.Proto Arc.C05

namespace Arc.C05.Drive

def nowSentinel : Int := 1700000000000000

/-- C02's transcription of ingest.SanitizeUTF8, on byte values (driver only; the theorems take `san` as a
parameter). -/
def isCont (b : Nat) : Bool := 0x80 ≤ b && b ≤ 0xBF
def ok3 (a b c : Nat) : Bool :=
  (if a == 0xE0 then 0xA0 else 0x80) ≤ b && b ≤ (if a == 0xED then 0x9F else 0xBF) && isCont c
def ok4 (a b c d : Nat) : Bool :=
  (if a == 0xF0 then 0x90 else 0x80) ≤ b && b ≤ (if a == 0xF4 then 0x8F else 0xBF) && isCont c && isCont d

def runeLen : List Nat → Nat
  | [] => 0
  | a :: rest =>
    if a < 0x80 then 1
    else if 0xC2 ≤ a && a ≤ 0xDF then
      match rest with
      | b :: _ => if isCont b then 2 else 0
      | _ => 0
    else if 0xE0 ≤ a && a ≤ 0xEF then
      match rest with
      | b :: c :: _ => if ok3 a b c then 3 else 0
      | _ => 0
    else if 0xF0 ≤ a && a ≤ 0xF4 then
      match rest with
      | b :: c :: d :: _ => if ok4 a b c d then 4 else 0
      | _ => 0
    else 0

def sanitizeAux : Nat → List Nat → List Nat
  | _, [] => []
  | 0, _ => []
  | f + 1, a :: rest =>
    let n := runeLen (a :: rest)
    if n = 0 then 0xEF :: 0xBF :: 0xBD :: sanitizeAux f rest
    else (a :: rest).take n ++ sanitizeAux f ((a :: rest).drop n)

def san (s : Str) : Str := sanitizeAux s.length s

def unhexS (s : String) : Option Str := (unhex s).map fun bs => bs.map UInt8.toNat
def hexS (s : Str) : String := hex (s.map UInt8.ofNat)

def hex16 (n : Nat) : String :=
  String.ofList ((List.range 16).map fun i => hexDigit ((n / 16 ^ (15 - i)) % 16))

def hexNat? (s : String) : Option Nat :=
  s.toList.foldl (fun acc c => match acc, hexVal c with | some a, some d => some (a * 16 + d) | _, _ => none) (some 0)

def val? (s : String) : Option Val :=
  match s.toList with
  | ['n'] => some .null
  | ['o'] => some .other
  | ['b', '0'] => some (.bool false)
  | ['b', '1'] => some (.bool true)
  | 'i' :: r => (String.ofList r).toInt?.map .int
  | 'f' :: r => (hexNat? (String.ofList r)).map .flt
  | 's' :: r => (unhexS (String.ofList r)).map .str
  | _ => none

def col? (s : String) : Option (Str × List Val) :=
  match s.splitOn "=" with
  | [n, vs] =>
    match unhexS n with
    | none => none
    | some name =>
      if vs == "" then some (name, []) else
      (vs.splitOn ",").mapM val? |>.map fun l => (name, l)
  | _ => none

def cols? (fs : List String) : Option Cols :=
  if fs == ["-"] then some [] else fs.mapM col?

def kvs? (s : String) (f : String → Option α) : Option (List (Str × α)) :=
  if s == "-" then some [] else
  (s.splitOn ";").mapM fun kv =>
    match kv.splitOn ":" with
    | [k, v] => match unhexS k, f v with | some k, some v => some (k, v) | _, _ => none
    | _ => none

def pt? (s : String) : Option Pt :=
  match s.splitOn "/" with
  | [t, tg, fl] =>
    match t.toInt?, kvs? tg unhexS, kvs? fl val? with
    | some t, some tg, some fl => some { t := t, tags := tg, fields := fl }
    | _, _, _ => none
  | _ => none

def cellText : Cell → String
  | .i v => s!"i{v}"
  | .f x => "f" ++ hex16 x
  | .s s => "s" ++ hexS s
  | .b true => "b1"
  | .b false => "b0"

def insertBy (lt : α → α → Bool) (x : α) : List α → List α
  | [] => [x]
  | y :: ys => if lt x y then x :: y :: ys else y :: insertBy lt x ys

def sortBy (lt : α → α → Bool) (l : List α) : List α := l.foldr (insertBy lt) []

def rowText (r : Row) : String :=
  let cs := sortBy (fun a b => decide (a.1 < b.1)) (r.cells.map fun p => (hexS p.1, cellText p.2))
  let ct := if cs.isEmpty then "-" else String.intercalate "," (cs.map fun p => p.1 ++ ":" ++ p.2)
  s!"{hexS r.db}|{hexS r.meas}|{r.time}|{ct}"

def errName : Err → String
  | .empty => "empty" | .lenMismatch => "len" | .badTime => "badtime" | .nullTime => "nulltime"
  | .noTime => "notime" | .mixed => "mixed" | .unsupported => "unsupported" | .badMeas => "badmeas"

def rowsText : R → String
  | .error e => "err:" ++ errName e
  | .ok [] => "-"
  | .ok rs => String.intercalate ";" (sortBy (fun a b => decide (a < b)) (rs.map rowText))

def unitOut (q : Req) : String :=
  let w := match walEntry q with | .raw .. => "raw" | .rows _ => "rows"
  s!"live={rowsText (liveRows san nowSentinel q)} wal={w} replay={rowsText (replayRows san nowSentinel (walEntry q))}"

def mval? (s : String) : Option MVal :=
  match s.toList with
  | ['o'] => some .other
  | 'i' :: r => (String.ofList r).toInt?.map .int
  | 's' :: r => (unhexS (String.ofList r)).map .str
  | _ => none

def nats? (s : String) : Option (List Nat) :=
  if s == "-" then some [] else (s.splitOn ",").mapM (·.toNat?)

def obs (st : St) : String :=
  let ids := sortBy (fun a b => decide (a < b)) ((st.rows.filter fun r => r.s + r.sr > 0).map (·.rid)).eraseDups
  if ids.isEmpty then "-" else
  String.intercalate "," (ids.map fun i =>
    s!"{i}*{((st.rows.filter fun r => r.rid == i).map fun r => r.s + r.sr).foldl (· + ·) 0}")

def ev? : List String → Option Ev
  | ["t.ack", e, rids] => match e.toNat?, nats? rids with | some e, some r => some (.ack e r) | _, _ => none
  | ["t.persist", e] => e.toNat?.map .persist
  | ["t.rotate"] => some .rotate
  | ["t.flush", rids] => (nats? rids).map .flush
  | ["t.purge", f] => f.toNat?.map .purge
  | ["t.crash"] => some .crash
  | ["t.restart"] => some .restart
  | ["t.replay", e] => e.toNat?.map .replay
  | ["t.skip", e] => e.toNat?.map .skip
  | ["t.fail", e] => e.toNat?.map .fail
  | ["t.delete", f] => f.toNat?.map .delete
  | _ => none

def stepD (st : St) (fs : List String) : St × String :=
  match fs with
  | "u" :: "raw" :: db :: m :: cs =>
    match unhexS db, mval? m, cols? cs with
    | some db, some m, some cols => (st, unitOut (.raw db m cols))
    | _, _, _ => (st, "bad-op")
  | "u" :: "pcol" :: db :: meas :: cs =>
    match unhexS db, unhexS meas, cols? cs with
    | some db, some meas, some cols => (st, unitOut (.pcol db meas cols))
    | _, _, _ => (st, "bad-op")
  | "u" :: "rgrp" :: db :: meas :: ps =>
    match unhexS db, unhexS meas, ps.mapM pt? with
    | some db, some meas, some pts => (st, unitOut (.rgrp db meas pts))
    | _, _, _ => (st, "bad-op")
  | ["s.reldir", _, _] =>
    -- writer and recovery derive their file paths from the same directory string with the same function
    -- (regenerated fact walDirUsedVerbatim): SkipActiveFile matches however the directory is spelled
    (st, if Arc.Generated.C05.walDirUsedVerbatim then "active-kept restored=all" else "unknown")
  | "t.new" :: _ => ({}, "ok")
  | ["t.obs"] => (st, obs st)
  | _ =>
    match ev? fs with
    | none => (st, "bad-op")
    | some e =>
      match stepCur st e with
      | some st' => (st', "ok")
      | none => (st, "disabled")

end Arc.C05.Drive

def main : IO Unit := Arc.Proto.run Arc.C05.Drive.stepD {}
