import Arc.Base.Proto
import Arc.Model.C06
import Arc.Generated.C06
/-! Model driver for C06 (reads ops on stdin, prints one line per op).

ops
  new <maxSizeBytes> <t0ns>          start a log (NewWriter at instant t0): clears entries and the decoder dictionary
  at <tns>                           the clock the next append (and a rotation it triggers) sees
  wq <ts> <payloadhex>               AppendRaw whose framed bytes are only observed through `files`
  dict <innerhex> <r|c|n> <tokhex>   declares what the msgpack library does with one inner payload
  w raw <ts> <payloadhex>            AppendRaw / Append      → bytes of the framed entry
  w meta <ts> <dbhex> <payloadhex>   AppendRawWithMeta       → bytes of the framed entry | toolarge | panic
  files                              the files the writer produced (size-based rotation), `|`-separated
  env <payloadhex>                   ParseEnvelope(payload, "")
  base <filehex>                     sets the file the next reads refer to
  r | t <n> | c <pos> <val>          ReadAll of the base file | truncated to n bytes | with byte pos := val
  rec <hex>|<hex>|…                  recovery over several files (callbacks' view, which files get deleted)
  recm <m1>,<m2>,… <hex>|<hex>|…     same, files in name order with the given modification times
-/
open Arc.Proto Arc.C06

structure DS where
  maxSize : Nat := 0
  dict : List (Bytes × Option (Bool × Bytes)) := []
  es : List Entry := []       -- reversed
  t0 : Nat := 0
  now : Nat := 0
  apps : List (Nat × Entry) := []   -- reversed: (instant, entry)
  base : Bytes := []

def policyOf (b : Bool) : Policy := if b then .cont else .stop

def DS.cfg (s : DS) : Cfg :=
  { dec := fun b => match s.dict.lookup b with
      | some r => r
      | none => none
    onFrameErr := policyOf Arc.Generated.C06.frameErrContinues
    onDecodeErr := policyOf Arc.Generated.C06.decodeErrContinues }

def outStr (withTs : Bool) (o : Out) : String :=
  (if withTs then s!"{o.ts}:" else "") ++ (if o.rows then "r:" else "c:") ++ hex o.db ++ ":" ++ hex o.val

def resStr : Res → String
  | .ok outs c => s!"ok c={c}" ++ String.join (outs.map fun o => " " ++ outStr true o)
  | .badMagic => "badmagic"
  | .panic => "panic"

def splitBar (s : String) : List String := s.splitOn "|"

def recStr (cfg : Cfg) (files : List Bytes) : String :=
  let rs := files.map (readAll cfg)
  if rs.any (fun r => r == .panic) then "panic" else
  let outs := rs.flatMap fun r => match r with | .ok os _ => os | _ => []
  let del := String.join (rs.map fun r => match r with | .ok _ _ => "1" | _ => "0")
  s!"del={del}" ++ String.join (outs.map fun o => " " ++ outStr false o)

def recmStr (cfg : Cfg) (files : List (Nat × Bytes)) : String :=
  let rs := files.map fun f => readAll cfg f.2
  if rs.any (fun r => r == .panic) then "panic" else
  let outs := recoverDir cfg Arc.Generated.C06.mtimeComparatorStrict files
  let del := String.join (rs.map fun r => match r with | .ok _ _ => "1" | _ => "0")
  s!"del={del}" ++ String.join (outs.map fun o => " " ++ outStr false o)

def stepC06 (s : DS) (fs : List String) : DS × String :=
  match fs with
  | ["new", m, t0] =>
    match nat? m, nat? t0 with
    | some m, some t0 => ({ maxSize := m, t0 := t0, now := t0 }, "ok")
    | _, _ => (s, "bad-op")
  | ["at", t] =>
    match nat? t with
    | some t => ({ s with now := t }, "ok")
    | none => (s, "bad-op")
  | ["wq", ts, p] =>
    match nat? ts, unhex p with
    | some ts, some p =>
      match appendRaw ts p with
      | .ok e => ({ s with es := e :: s.es, apps := (s.now, e) :: s.apps }, "ok")
      | .tooLarge => (s, "toolarge")
      | .panic => (s, "panic")
    | _, _ => (s, "bad-op")
  | ["dict", inner, k, tok] =>
    match unhex inner, unhex tok with
    | some i, some t =>
      let v : Option (Option (Bool × Bytes)) :=
        if k == "r" then some (some (true, t)) else if k == "c" then some (some (false, t))
        else if k == "n" then some none else none
      match v with
      | some v => ({ s with dict := (i, v) :: s.dict }, "ok")
      | none => (s, "bad-op")
    | _, _ => (s, "bad-op")
  | ["w", "raw", ts, p] =>
    match nat? ts, unhex p with
    | some ts, some p =>
      match appendRaw ts p with
      | .ok e => ({ s with es := e :: s.es, apps := (s.now, e) :: s.apps }, hex (encodeEntry e))
      | .tooLarge => (s, "toolarge")
      | .panic => (s, "panic")
    | _, _ => (s, "bad-op")
  | ["w", "meta", ts, db, p] =>
    match nat? ts, unhex db, unhex p with
    | some ts, some db, some p =>
      match appendRawWithMeta ts db p with
      | .ok e => ({ s with es := e :: s.es, apps := (s.now, e) :: s.apps }, hex (encodeEntry e))
      | .tooLarge => (s, "toolarge")
      | .panic => (s, "panic")
    | _, _, _ => (s, "bad-op")
  | ["files"] =>
    (s, String.intercalate "|"
      ((namedFiles Arc.Generated.C06.fileNameResolutionNs s.maxSize s.t0 s.apps.reverse).map hex))
  | ["env", p] =>
    match unhex p with
    | some p =>
      match parseEnvelope p with
      | some (db, inner) => (s, hex db ++ " " ++ hex inner)
      | none => (s, "panic")
    | none => (s, "bad-op")
  | ["base", f] =>
    match unhex f with
    | some f => ({ s with base := f }, s!"ok len={f.length}")
    | none => (s, "bad-op")
  | ["r"] => (s, resStr (readAll s.cfg s.base))
  | ["t", n] =>
    match nat? n with
    | some n => (s, resStr (readAll s.cfg (s.base.take n)))
    | none => (s, "bad-op")
  | ["c", pos, v] =>
    match nat? pos, nat? v with
    | some pos, some v =>
      if pos < s.base.length ∧ v < 256 then (s, resStr (readAll s.cfg (s.base.set pos (UInt8.ofNat v))))
      else (s, "bad-op")
    | _, _ => (s, "bad-op")
  | ["recm", ms, fl] =>
    match (ms.splitOn ",").mapM nat?, (splitBar fl).mapM unhex with
    | some ms, some files =>
      if ms.length = files.length then (s, recmStr s.cfg (ms.zip files)) else (s, "bad-op")
    | _, _ => (s, "bad-op")
  | ["rec", fl] =>
    match (splitBar fl).mapM unhex with
    | some files => (s, recStr s.cfg files)
    | none => (s, "bad-op")
  | _ => (s, "bad-op")

def main : IO Unit := Arc.Proto.run stepC06 {}
