import Arc.Base.Proto
import Arc.Model.C31
/-! Model driver for C31 (reads ops on stdin, prints one line per op).  Stateless: every op is a
function-level call or one whole import into a fresh measurement. -/
open Arc.Proto Arc.C31

def cellOfHex (s : String) : Option Cell :=
  match unhex s with
  | none => none
  | some bs => (String.fromUTF8? (ByteArray.mk bs.toArray)).map (·.toList)

def hexOfCell (c : Cell) : String := hex (String.ofList c).toUTF8.toList

def hex16 (n : Nat) : String :=
  String.ofList ((List.range 16).map (fun i => hexDigit ((n >>> (4 * (15 - i))) % 16)))

def bitsOfHex (s : String) : Option Nat :=
  s.toList.foldlM (fun a c => (hexVal c).map (fun v => a * 16 + v)) 0

def fmtOf (s : String) : String := if s == "-" then "" else s

def optInt (s : String) : Option (Option Int) := if s == "-" then some none else (int? s).map some
def optBits (s : String) : Option (Option Nat) := if s == "-" then some none else (bitsOfHex s).map some

def joinWith (sep : String) (xs : List String) : String := sep.intercalate xs

def showVal : Val → String
  | .null => "~"
  | .i n => s!"i{n}"
  | .f b => "f" ++ hex16 b
  | .b v => if v then "b1" else "b0"
  | .s c => "s" ++ hexOfCell c

def sortStrs (xs : List String) : List String := xs.mergeSort (fun a b => !(decide (b < a)))

def showRow (r : Row) : String :=
  let cols := sortStrs (r.vals.map (fun (n, v) => hexOfCell n ++ "=" ++ showVal v))
  joinWith ";" (toString r.time :: cols)

def showRows (rs : List Row) : String :=
  s!"ok n={rs.length} " ++ (if rs.isEmpty then "E" else joinWith "|" (sortStrs (rs.map showRow)))

def showValidity : Option (List Bool) → String
  | none => "-"
  | some vs => String.ofList (vs.map (fun b => if b then '1' else '0'))

def showCol (c : Col) (v : Option (List Bool)) : String :=
  let body := match c with
    | .int vs => "int " ++ joinWith "," (vs.map toString)
    | .float vs => "float " ++ joinWith "," (vs.map hex16)
    | .bool vs => "bool " ++ joinWith "," (vs.map (fun b => if b then "1" else "0"))
    | .str vs => "str " ++ joinWith "," (vs.map hexOfCell)
  body ++ " v=" ++ showValidity v

/-- cell~pf~fb -/
structure OCell where
  c : Cell
  pf : Option Nat
  fb : Option Int

def parseOCell (s : String) : Option OCell :=
  match s.splitOn "~" with
  | [h, p, f] =>
    match cellOfHex h, optBits p, optInt f with
    | some c, some p, some f => some { c := c, pf := p, fb := f }
    | _, _, _ => none
  | _ => none

def parseRec (s : String) : Option (List OCell) := (s.splitOn ",").mapM parseOCell

def parseRecs (s : String) : Option (List (List OCell)) :=
  if s == "E" then some [] else (s.splitOn ";").mapM parseRec

def oracles (cells : List OCell) : (Cell → Option Nat) × (Cell → Option Int) :=
  (fun c => match cells.find? (fun o => o.c == c) with | some o => o.pf | none => none,
   fun c => match cells.find? (fun o => o.c == c) with | some o => o.fb | none => none)

/-- the float/textual fallback is applied to the TRIMMED cell; the harness gives the oracle for the
untrimmed cell text, so look it up through trimming. -/
def fbOracle (cells : List OCell) : Cell → Option Int :=
  fun c => match cells.find? (fun o => trimSpace o.c == c) with | some o => o.fb | none => none

def kindOf (s : String) : Option PKind :=
  match s.splitOn ":" with
  | ["i8"] => some .i8 | ["i16"] => some .i16 | ["i32"] => some .i32 | ["i64"] => some .i64
  | ["u8"] => some .u8 | ["u16"] => some .u16 | ["u32"] => some .u32 | ["u64"] => some .u64
  | ["f32"] => some .f32 | ["f64"] => some .f64 | ["str"] => some .str | ["bin"] => some .bin
  | ["fsb"] => some .fsb | ["bool"] => some .bool | ["dec"] => some .dec | ["other"] => some .other
  | ["ts", u] => some (.ts u)
  | _ => none

def parsePCell (s : String) : Option PCell :=
  let (body, orc) := match s.splitOn "@" with
    | [b, o] => (b, int? o)
    | _ => (s, none)
  match body.toList with
  | ['~'] => some { v := .null, orc := orc }
  | 'i' :: r => (int? (String.ofList r)).map (fun n => { v := .i n, orc := orc })
  | 'f' :: r => (bitsOfHex (String.ofList r)).map (fun n => { v := .f n, orc := orc })
  | 's' :: r => (cellOfHex (String.ofList r)).map (fun c => { v := .s c, orc := orc })
  | ['b', '1'] => some { v := .b true, orc := orc }
  | ['b', '0'] => some { v := .b false, orc := orc }
  | _ => none

def parsePCol (s : String) : Option PCol :=
  match s.splitOn "," with
  | [n, k, cs] =>
    match cellOfHex n, kindOf k, (if cs == "E" then some [] else (cs.splitOn "/").mapM parsePCell) with
    | some n, some k, some cs => some { name := n, kind := k, cells := cs }
    | _, _, _ => none
  | _ => none

def stepC31 (s : Unit) (fs : List String) : Unit × String :=
  (s, match fs with
  | ["i2m", f, n] => (match int? n with | some n => toString (intTimeToMicros n (fmtOf f)) | none => "bad-op")
  | ["auto", n] => (match int? n with | some n => toString (autoIntEpochToMicros n) | none => "bad-op")
  | ["arrow", u, v] => (match int? v with | some v => toString (arrowTimestampToMicros v u) | none => "bad-op")
  | ["pint", h] => (match cellOfHex h with
      | some c => (match parseInt c with | some n => toString n | none => "err")
      | none => "bad-op")
  | ["blit", h] => (match cellOfHex h with
      | some c => (if isBoolLiteral c then "1" else "0") ++ (if boolVal c then "1" else "0")
      | none => "bad-op")
  | ["trim", h] => (match cellOfHex h with | some c => hexOfCell (trimSpace c) | none => "bad-op")
  | ["i2f", n] => (match int? n with | some n => hex16 (f64BitsOfInt n) | none => "bad-op")
  | ["pfint", h] => (match cellOfHex h with
      | some c => if c.isEmpty || !c.all isDigit then "bad-op" else
          (match parseFloatDigits c with | some b => hex16 b | none => "err")
      | none => "bad-op")
  | ["infer", cs] =>
    (match (if cs == "E" then some [] else parseRec cs) with
     | some cells =>
       let (pf, _) := oracles cells
       let (c, v) := inferCol pf (cells.map (·.c))
       showCol c v
     | none => "bad-op")
  | ["tcol", f, cs] =>
    (match (if cs == "E" then some [] else parseRec cs) with
     | some cells =>
       (match timeCells (fbOracle cells) (fmtOf f) (cells.map (·.c)) with
        | some ts => "ok " ++ joinWith "," (ts.map toString)
        | none => "err")
     | none => "bad-op")
  | ["hdr", tc, names] =>
    (match cellOfHex tc, (names.splitOn ",").mapM cellOfHex with
     | some tc, some hs => (match validateHeader hs tc with | some i => toString i | none => "rej")
     | _, _ => "bad-op")
  | ["csv", d, skip, tc, f, rs] =>
    (match int? skip, cellOfHex tc, parseRecs rs with
     | some skip, some tc, some recs =>
       let all := recs.flatten
       let (pf, _) := oracles all
       let x : CsvIn := { delimOk := d == "ok", skip := skip, timeCol := tc, fmt := fmtOf f, recs := recs.map (·.map (·.c)) }
       let (ok, st) := importCSV pf (fbOracle all) x []
       if ok then showRows st else "rej"
     | _, _, _ => "bad-op")
  | ["csvf", k, d, skip, tc, f, rs] =>
    (match nat? k, int? skip, cellOfHex tc, parseRecs rs with
     | some k, some skip, some tc, some recs =>
       let all := recs.flatten
       let (pf, _) := oracles all
       let x : CsvIn := { delimOk := d == "ok", skip := skip, timeCol := tc, fmt := fmtOf f, recs := recs.map (·.map (·.c)) }
       (match convertCSV pf (fbOracle all) x with
        | none => "rej"
        | some b =>
          let (left, ok) := flushFiles (hourFiles (batchRows b)) (some k)
          if ok then s!"ok files={left.length}" else s!"fail files={left.length}")
     | _, _, _, _ => "bad-op")
  | ["pq", tc, f, cs] =>
    (match cellOfHex tc, (if cs == "E" then some [] else (cs.splitOn ";").mapM parsePCol) with
     | some tc, some cols =>
       let (ok, st) := importPQ { timeCol := tc, fmt := fmtOf f, cols := cols } []
       if ok then showRows st else "rej"
     | _, _ => "bad-op")
  | _ => "bad-op")

def main : IO Unit := Arc.Proto.run stepC31 ()
