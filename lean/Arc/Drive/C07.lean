import Arc.Base.Proto
import Arc.Model.C07
import Arc.Generated.C07
/-! Model driver for C07 (reads ops on stdin, prints one digest line per op). -/
open Arc.Proto Arc.C07

structure DS where
  cfg : Cfg := { walOn := true, chanCap := 1, qCap := 1, bufMax := 2, ageMax := 601, safeAge := 1802,
                 rotAge := 301, minFileAge := 5, facts := Arc.Generated.C07.facts }
  s : St := {}

def joinNat (sep : String) (xs : List Nat) : String := sep.intercalate (xs.map toString)

def sortNat (xs : List Nat) : List Nat := (xs.toArray.qsort (· < ·)).toList

def idsStr (rows : List Row) : String :=
  if rows.isEmpty then "-" else joinNat "." (rows.map (·.id))

def bufsStr (bs : List Buf) : String :=
  let bs := (bs.toArray.qsort (fun a b => a.key < b.key)).toList
  if bs.isEmpty then "-" else ",".intercalate (bs.map fun b => s!"{b.key}:{idsStr b.rows}")

def fileStr (f : WFile) : String := s!"{f.mtime}:{idsStr (fileRows f)}"

def digest (s : St) : String :=
  let act := match s.active with
    | some f => if s.activeLinked then fileStr f else "x"
    | none => "x"
  let rot := if s.files.isEmpty then "-" else "|".intercalate (s.files.map fileStr)
  let st := if s.stored.isEmpty then "-" else joinNat "." (sortNat (s.stored.map (·.id)))
  let b (x : Bool) : String := if x then "1" else "0"
  s!"ack={b s.lastAck} up={b s.up} buf={bufsStr s.bufs} q={s.queue.length} inf={b s.inflight.isSome} flag={b (s.up && s.flag)} ch={s.chan.length} dr={s.dropped} act={act} rot={rot} st={st}"

def kv? (pre : String) (f : String) : Option Nat :=
  if f.startsWith pre then (f.drop pre.length).toString.toNat? else none

def parseRows (s : String) : Option (List Row) :=
  if s == "-" then some [] else
  (s.splitOn ",").mapM fun p =>
    match p.splitOn ":" with
    | [a, b] => do let i ← a.toNat?; let h ← b.toNat?; pure ⟨i, h⟩
    | _ => none

def parseObs (fs : List String) : List String × List Nat :=
  match fs.reverse with
  | l :: rest =>
    if l.startsWith "obs=" then
      let body := (l.drop 4).toString
      (rest.reverse, if body == "-" then [] else (body.splitOn ".").filterMap (·.toNat?))
    else (fs, [])
  | [] => (fs, [])

def parseEv : List String → Option Ev
  | ["adv", d] => (nat? d).map .adv
  | ["w", k, rows] => do let k ← nat? k; let r ← parseRows rows; pure (.write k r)
  | ["wt", k, rows] => do let k ← nat? k; let r ← parseRows rows; pure (.writeT false k r)
  | ["wd", k, rows] => do let k ← nat? k; let r ← parseRows rows; pure (.writeT true k r)
  | ["stall"] => some .stall
  | ["late"] => some (.mode none)   -- storage write succeeds but only returns after the flush deadline: still a success
  | ["tickf", n] => (nat? n).map .tickF
  | ["restartf", n] => (nat? n).map .restartF
  | ["wpause"] => some .wpause
  | ["wresume"] => some .wresume
  | ["hold"] => some .hold
  | ["unhold"] => some .unhold
  | ["step1"] => some .step1
  | ["mode", "ok"] => some (.mode none)
  | ["mode", k] => (nat? k).map fun k => .mode (some k)
  | ["age"] => some .ageFlush
  | ["tick"] => some .tick
  | ["shut", d] => (nat? d).map .shutdown
  | ["crash"] => some .crash
  | ["restart"] => some .restart
  | _ => none

def stepC07 (d : DS) (fs : List String) : DS × String :=
  match fs with
  | ["new", wal, cc, q, bm, am, sa, ra, mf] =>
    match kv? "wal=" wal, kv? "cc=" cc, kv? "q=" q, kv? "bm=" bm, kv? "am=" am, kv? "sa=" sa, kv? "ra=" ra, kv? "mf=" mf with
    | some wal, some cc, some q, some bm, some am, some sa, some ra, some mf =>
      ({ cfg := { walOn := wal == 1, chanCap := cc, qCap := q, bufMax := bm, ageMax := am, safeAge := sa,
                  rotAge := ra, minFileAge := mf, facts := Arc.Generated.C07.facts }, s := {} }, "ok")
    | _, _, _, _, _, _, _, _ => (d, "bad-op")
  | _ =>
    let (fs', obs) := parseObs fs
    match parseEv fs' with
    | some e =>
      let s' := step d.cfg d.s e obs
      ({ d with s := s' }, digest s')
    | none => (d, "bad-op")

def main : IO Unit := Arc.Proto.run stepC07 {}
