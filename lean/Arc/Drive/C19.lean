import Arc.Base.Proto
import Arc.Model.C19
/-! Model driver for C19 (reads ops on stdin, prints one line per op). Stateless. -/
open Arc.Proto Arc.C19

def toNats (b : List UInt8) : Bytes := b.map (·.toNat)
def ofNats (b : Bytes) : List UInt8 := b.map UInt8.ofNat
def hexN (b : Bytes) : String := hex (ofNats b)
def unhexN (s : String) : Option Bytes := (unhex s).map toNats
def optHex : Option Bytes → String
  | some b => hexN b
  | none => "none"
def asciiStr (b : Bytes) : String := String.ofList (b.map Char.ofNat)

def bsum (b : Bytes) : Nat := b.foldl (fun a x => (a * 31 + x) % 4294967296) 7

def tokStr : Tok → String
  | .nil => "nil"
  | .bool b => if b then "bool:1" else "bool:0"
  | .int v => s!"int:{v}"
  | .f32 b => s!"f32:{b}"
  | .f64 b => s!"f64:{b}"
  | .str s => s!"str:{s.length}:{bsum s}"
  | .bin s => s!"bin:{s.length}:{bsum s}"
  | .arr n => s!"arr:{n}"
  | .map n => s!"map:{n}"
  | .ext ty d =>
    let t := match decTime d with
      | some (s, n) => if ty = 255 then s!" time={s},{n}" else ""
      | none => ""
    s!"ext:{ty}:{hexN d}{t}"

/-- header bytes (≤ 24), total length, and the single token the spec decoder reads back (must consume all) -/
def mpLine (b : Bytes) : String :=
  let t := match decTok b with
    | some (t, []) => tokStr t
    | some (t, r) => tokStr t ++ s!" trailing={r.length}"
    | none => "none"
  s!"{hexN (b.take 24)} len={b.length} tok={t}"

/-- header-only ops: the token is followed by no payload, the decoder is only asked for the header -/
def mpHdrLine (b : Bytes) : String :=
  let t := match b with
    | c :: r =>
      -- array/map headers decode fully; str/bin/ext length headers: report the announced length
      if c = 0xc4 ∨ c = 0xc5 ∨ c = 0xc6 then
        (match readBE (if c = 0xc4 then 1 else if c = 0xc5 then 2 else 4) r with
         | some (n, []) => s!"binlen:{n}" | _ => "none")
      else (match decTok b with | some (t, []) => tokStr t | _ => "none")
    | [] => "none"
  s!"{hexN b} tok={t}"

def fmtNum (_ : Nat) : Bytes := strBytes "num"
def tsNone (_ : Int) (_ : Nat) : Bytes := strBytes "ts"

structure ColSpec where
  ty : Char
  name : Bytes

def parseCol (s : String) : Option ColSpec :=
  match s.splitOn ":" with
  | [t, n] => (match t.toList, unhexN n with | [c], some b => some ⟨c, b⟩ | _, _ => none)
  | _ => none

def parseCell (ty : Char) (s : String) : Option Cell :=
  if s == "~" then some .null else
  match ty with
  | 'I' | 'i' | 'U' | 'u' => (int? s).map .int
  | 'B' => if s == "1" then some (.bool true) else if s == "0" then some (.bool false) else none
  | 'S' => (unhexN s).map .str
  | 'Y' => (unhexN s).map .bin
  | 'D' | 'F' => (nat? s).map .f64
  | 'X' => (int? s).map fun us => .ts (us / 1000000) ((us % 1000000).toNat * 1000)
  | _ => none

def mpTyOf : Char → MpTy
  | 'I' => .i64 | 'i' => .icompact | 'U' => .u64 | 'u' => .ucompact | 'B' => .bool | 'S' => .str
  | 'D' => .f64 | 'F' => .f32 | 'X' => .ts | _ => .bin

def wireName : Char → String
  | 'I' => "int64" | 'i' => "int32" | 'U' => "uint64" | 'u' => "uint32" | 'B' => "bool" | 'S' => "utf8"
  | 'D' => "float64" | 'F' => "float32" | 'X' => "timestamp[us]" | _ => "binary"

def chunk {α : Type} (n : Nat) : Nat → List α → List (List α)
  | 0, _ => []
  | f + 1, l => if l.isEmpty then [] else l.take n :: chunk n f (l.drop n)

def splitSizes {α : Type} : List Nat → List α → List (List α)
  | [], _ => []
  | n :: ns, l => l.take n :: splitSizes ns (l.drop n)

def parseSizes (s : String) : Option (List Nat) :=
  if s == "-" then some [] else (s.splitOn ",").mapM nat?

structure Env where
  maxRows : Nat
  ts : Bytes
  sizes : List Nat
  cols : List ColSpec
  rows : List (List Cell)

def parseEnv (fs : List String) : Option Env :=
  match fs with
  | mx :: ts :: sz :: nc :: rest =>
    match nat? mx, unhexN ts, parseSizes sz, nat? nc with
    | some mx, some ts, some sz, some nc =>
      match (rest.take nc).mapM parseCol with
      | some cols =>
        if cols.length ≠ nc ∨ nc = 0 then none else
        let cellStrs := rest.drop nc
        let rowStrs := chunk nc (cellStrs.length + 1) cellStrs
        let rows := rowStrs.mapM fun r =>
          if r.length ≠ nc then none else (List.zip cols r).mapM fun (c, s) => parseCell c.ty s
        (match rows with
         | some rows => if rows.length = sz.foldl (· + ·) 0 then some ⟨mx, ts, sz, cols, rows⟩ else none
         | none => none)
      | none => none
    | _, _, _, _ => none
  | _ => none

def jsonCellOf (_ : Char) (c : Cell) : Cell := c

def step (_ : Unit) (fs : List String) : Unit × String :=
  let out : String :=
    match fs with
    | ["jstr", h] =>
      (match unhexN h with
       | some s => let o := writeJSONString s; s!"{hexN o} dec={optHex (jsonDecode o)}"
       | none => "bad-op")
    | ["jblob", h] =>
      (match unhexN h with
       | some s =>
         let o := writeJSONString (blobText s)
         let d := match jsonDecode o with | some t => blobDecode t | none => none
         s!"{hexN o} dec={optHex d}"
       | none => "bad-op")
    | ["jdecimal", v, sc] =>
      (match int? v, nat? sc with
       | some v, some sc => asciiStr (writeJSONString (decimalText v sc))
       | _, _ => "bad-op")
    | ["jdec", h] =>
      (match unhexN h with
       | some s => s!"dec={optHex (jsonDecode s)}"
       | none => "bad-op")
    | ["jarr" ] => hexN (writeJSONStringArray [])
    | "jarr" :: hs =>
      (match hs.mapM unhexN with
       | some ss => hexN (writeJSONStringArray ss)
       | none => "bad-op")
    | ["jint", v] =>
      (match int? v with
       | some v =>
         let o := writeInt v
         let d := match decInt o with | some (x, []) => s!"{x}" | _ => "none"
         s!"{asciiStr o} dec={d}"
       | none => "bad-op")
    | ["jf64", b] => (match nat? b with | some b => asciiStr (writeFloatCell fmtNum b) | none => "bad-op")
    | ["jf32", b] => (match nat? b with | some b => asciiStr (writeFloat32Cell fmtNum b) | none => "bad-op")
    | ["jlit", "n"] => asciiStr nullCell
    | ["jlit", "t"] => asciiStr (writeBoolCell true)
    | ["jlit", "f"] => asciiStr (writeBoolCell false)
    | ["mpint", v] => (match int? v with | some v => mpLine (encInt v) | none => "bad-op")
    | ["mpi64", v] => (match int? v with | some v => mpLine (encInt64 v) | none => "bad-op")
    | ["mpuint", v] => (match nat? v with | some v => mpLine (encUint v) | none => "bad-op")
    | ["mpu64", v] => (match nat? v with | some v => mpLine (encUint64 v) | none => "bad-op")
    | ["mpf32", v] => (match nat? v with | some v => mpLine (encF32 v) | none => "bad-op")
    | ["mpf64", v] => (match nat? v with | some v => mpLine (encF64 v) | none => "bad-op")
    | ["mpbool", v] => mpLine (encBool (v == "1"))
    | ["mpnil"] => mpLine encNil
    | ["mpstr", h] => (match unhexN h with | some s => mpLine (encStr s) | none => "bad-op")
    | ["mpbin", h] => (match unhexN h with | some s => mpLine (encBin s) | none => "bad-op")
    | ["mpstrn", n, b] =>
      (match nat? n, nat? b with
       | some n, some b => mpLine (encStr (List.replicate n b))
       | _, _ => "bad-op")
    | ["mpbinn", n, b] =>
      (match nat? n, nat? b with
       | some n, some b => mpLine (encBin (List.replicate n b))
       | _, _ => "bad-op")
    | ["mparr", n] => (match nat? n with | some n => mpHdrLine (encArrLen n) | none => "bad-op")
    | ["mpmap", n] => (match nat? n with | some n => mpHdrLine (encMapLen n) | none => "bad-op")
    | ["mpbinlen", n] => (match nat? n with | some n => mpHdrLine (encBinLen n) | none => "bad-op")
    | ["mptime", s, n] =>
      (match int? s, nat? n with
       | some s, some n => mpLine (encTime s n)
       | _, _ => "bad-op")
    | "jenv" :: rest =>
      (match parseEnv rest with
       | some e =>
         let rows := e.rows.map fun r => (List.zip e.cols r).map fun (c, x) => jsonCellOf c.ty x
         hexN (jsonEnvelope fmtNum tsNone (e.cols.map (·.name)) e.maxRows (splitSizes e.sizes rows) 0 e.ts)
       | none => "bad-op")
    | "menv" :: rest =>
      (match parseEnv rest with
       | some e =>
         let (bs, rc) := drainBatches e.maxRows (splitSizes e.sizes e.rows)
         let kept := bs.flatten
         let cols := (List.range e.cols.length).map fun i =>
           let c := e.cols.getD i ⟨'S', []⟩
           (c.name, strBytes (wireName c.ty), mpTyOf c.ty, kept.map fun r => r.getD i .null)
         hexN (mpEnvelope cols rc 0 e.ts)
       | none => "bad-op")
    | _ => "bad-op"
  ((), out)

def main : IO Unit := Arc.Proto.run step ()
