import Arc.Base.Proto
import Arc.Model.C14.Str
/-! Model driver for C14: `q <header-hex> <sql-hex>` -> the decision of ValidateSQLRequest / header rules
and the (database, measurement) pairs checkQueryPermissions hands to the RBAC checker. -/
open Arc.Proto Arc.C14

def bytesToStr (bs : List UInt8) : Str := bs.map (fun b => Char.ofNat b.toNat)

def refStr (r : Ref) : String := String.ofList r.db ++ "." ++ String.ofList r.m

def verdictStr : Verdict → String
  | .ok => "ok" | .empty => "rej:empty" | .toolong => "rej:toolong" | .multi => "rej:multi"
  | .danger => "rej:danger" | .io => "rej:io" | .strtab => "rej:strtab" | .identtab => "rej:identtab"

def stepC14 (u : Unit) (fs : List String) : Unit × String :=
  match fs with
  | ["q", h, q] =>
    match unhex h, unhex q with
    | some hb, some qb =>
      let hdr := bytesToStr hb
      let s := bytesToStr qb
      match validate s with
      | .ok =>
        if !headerOK hdr then (u, "hdr:bad")
        else if !hdr.isEmpty && hasCross s then (u, "cross")
        else
          let rs := refsChecked strWorld s hdr
          (u, "ok refs=" ++ (if rs.isEmpty then "-" else ",".intercalate (rs.map refStr)))
      | v => (u, verdictStr v)
    | _, _ => (u, "bad-op")
  | _ => (u, "bad-op")

def main : IO Unit := Arc.Proto.run stepC14 ()
