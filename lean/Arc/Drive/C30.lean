import Arc.Base.Proto
import Arc.Model.C30
/-! Model driver for C30 (reads ops on stdin, prints one line per op).

ops
  caps <role>                                   capability row of a role string (`-` = empty string)
  dec <none|nil|role> <w|q> <hexvalue>*         decideForward; the fields are the marker header's values in order
  fwd <remoteAddr> <localID> <host> <K:hexv>*   BuildHTTPRequest + doForward header map (sorted by key)
  cfg <id:role:wstate:state>*                   registry content for the following reg/step ops
  reg <observedPrimary|->                       GetWriters / GetReaders sets; is the observed primary admissible?
  step <src> <idx> <router 0|1> <w|q> <chosen|-> <remoteAddr> <host> <K:hexv>*
                                                one handler invocation at node idx; `chosen` is the target the
                                                real router picked (map order / round robin are not modelled:
                                                the model answers whether that choice is admissible)
  route <Receiver> <METHOD> <path>              does the registered route start with the routing prologue
                                                ("prologue") or run its own local path unconditionally ("local")?
-/
open Arc.Proto Arc.C30 Arc.Generated.C30

structure DS where
  nodes : List Node := []

def tok (s : String) : String := if s == "-" then "" else s

def hexStr (s : String) : String := hex s.toUTF8.toList
def unhexStr (s : String) : Option String :=
  match unhex s with
  | some bs => String.fromUTF8? (ByteArray.mk bs.toArray)
  | none => none

def b01 (b : Bool) : String := if b then "1" else "0"

def parseHeader (f : String) : Option (String × String) :=
  match f.splitOn ":" with
  | [k, v] => (unhexStr v).map (fun v' => (k, v'))
  | _ => none

def parseHeaders (fs : List String) : Option Headers := fs.mapM parseHeader

def dedupKeys (ks : List String) : List String :=
  ks.foldl (fun acc k => if acc.contains k then acc else acc ++ [k]) []

def strLe (a b : String) : Bool := a < b || a == b

/-- canonical rendering of a header map: keys sorted, values of a key in order. -/
def renderHeaders (hs : Headers) : String :=
  let keys := (dedupKeys (hs.map (·.1))).mergeSort strLe
  if keys.isEmpty then "-" else
  ";".intercalate (keys.map fun k => k ++ "=" ++ ",".intercalate ((valuesOf hs k).map hexStr))

def wstateOf (s : String) : WState :=
  if s == writerStatePrimary then .primary else if s == "standby" then .standby else .none

def parseNode (f : String) : Option Node :=
  match f.splitOn ":" with
  | [id, role, ws, st] =>
    some { id := id, role := roleOfString (tok role), wstate := wstateOf (tok ws),
           healthy := tok st == stateHealthy, hasRouter := true }
  | _ => none

def ids (ns : List Node) : String :=
  let l := (ns.map (·.id)).mergeSort strLe
  if l.isEmpty then "-" else ",".intercalate l

def parseRouter (s : String) : Option (Option Role) :=
  if s == "none" then none else if s == "nil" then some none else some (some (roleOfString (tok s)))

def stepC30 (s : DS) (fs : List String) : DS × String :=
  match fs with
  | ["caps", role] =>
    let c := caps (roleOfString (tok role))
    (s, s!"ingest={b01 c.canIngest} query={b01 c.canQuery} compact={b01 c.canCompact} coord={b01 c.canCoordinate}")
  | "dec" :: router :: wq :: vals =>
    match vals.mapM unhexStr with
    | some vs =>
      if wq != "w" && wq != "q" then (s, "bad-op") else
      let hs : Headers := vs.map (fun v => (forwardedByHeader, v))
      let d := decideForward (parseRouter router) (wq == "w") (getHeader hs forwardedByHeader)
      (s, match d with | .local => "local" | .toPeer => "peer" | .alreadyForwarded => "already")
    | none => (s, "bad-op")
  | "fwd" :: ra :: lid :: host :: hdrs =>
    match parseHeaders hdrs with
    | some hs => (s, renderHeaders (outbound hs (tok ra) (tok lid) (tok host)))
    | none => (s, "bad-op")
  | "cfg" :: nodes =>
    match nodes.mapM parseNode with
    | some ns => ({ nodes := ns }, s!"ok n={ns.length}")
    | none => (s, "bad-op")
  | ["reg", obs] =>
    let prim := s.nodes.filter isPrimary
    let ok := if obs == "-" then prim.isEmpty else prim.any (·.id == obs)
    (s, s!"writers={ids (s.nodes.filter isWriter)} readers={ids (s.nodes.filter isReader)} primary={if ok then "ok" else "BAD"}")
  | "step" :: _src :: idx :: router :: wq :: chosen :: ra :: host :: hdrs =>
    match nat? idx, parseHeaders hdrs with
    | some i, some hs =>
      if wq != "w" && wq != "q" then (s, "bad-op") else
      match s.nodes[i]? with
      | none => (s, "bad-op")
      | some n0 =>
        let n := { n0 with hasRouter := router == "1" }
        let rq : Req := { isWrite := wq == "w", headers := hs, remoteAddr := tok ra, host := tok host }
        match handle n s.nodes rq with
        | .serveLocal => (s, "local")
        | .reject508 => (s, "508")
        | .unavailable true => (s, "503-writer")
        | .unavailable false => (s, "503-reader")
        | .forwardTo cands out =>
          if cands.any (·.id == chosen) then (s, s!"forward to={chosen} ok out={renderHeaders out}")
          else (s, s!"forward to={chosen} NOT-ADMISSIBLE cands={ids cands} out={renderHeaders out}")
    | _, _ => (s, "bad-op")
  | ["route", recv, method, path] =>
    match routes.find? (fun r => r.1 == recv && r.2.1 == method ++ " " ++ path) with
    | some r => (s, if r.2.2.2 then "prologue" else "local")
    | none => (s, "unknown-route")
  | _ => (s, "bad-op")

def main : IO Unit := Arc.Proto.run stepC30 {}
