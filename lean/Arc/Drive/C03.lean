import Arc.Base.Proto
import Arc.Model.C03
/-! Model driver for C03: pure-function ops (part A) and the LTS trace checker (part B). -/
open Arc.Proto Arc.C03

namespace C03Drive

/-! ### text helpers -/

def hexS (s : String) : String := if s.isEmpty then "-" else hex s.toUTF8.toList

def unhexS (s : String) : String :=
  match unhex s with
  | some bs =>
    let ba := ByteArray.mk bs.toArray
    match String.fromUTF8? ba with
    | some x => x
    | none => "?" ++ s
  | none => "?" ++ s

def hexNat? (s : String) : Option Nat :=
  s.toList.foldl (fun acc c => match acc, hexVal c with
    | some a, some v => some (a * 16 + v)
    | _, _ => none) (some 0)

def hex16 (n : Nat) : String :=
  String.ofList ((List.range 16).reverse.map (fun k => hexDigit ((n / 16 ^ k) % 16)))

def fnvOff : UInt64 := 14695981039346656037
def fnvPrime : UInt64 := 1099511628211

def fnvAdd (h : UInt64) (s : String) : UInt64 :=
  let h := s.toUTF8.foldl (fun h b => (h ^^^ b.toUInt64) * fnvPrime) h
  (h ^^^ 10) * fnvPrime

def hashLines (ls : List String) : UInt64 := ls.foldl fnvAdd fnvOff
def hashInts (xs : List Nat) : String := hex16 (xs.foldl (fun h x => fnvAdd h (toString x)) fnvOff).toNat
def h16 (h : UInt64) : String := hex16 h.toNat

/-! ### parsing batches -/

def parseTy : String → Option Ty
  | "i" => some .i64 | "f" => some .f64 | "s" => some .str | "b" => some .bool | "d" => some .dec
  | _ => none

def tyChar : Ty → String
  | .i64 => "i" | .f64 => "f" | .str => "s" | .bool => "b" | .dec => "d"

def parseCell (ty : Ty) (s : String) : Option Val :=
  match ty with
  | .i64 => s.toInt?.map Val.i
  | .f64 => (hexNat? s).map Val.f
  | .str => some (.s (if s == "-" then "" else s))
  | .bool => if s == "1" then some (.b true) else if s == "0" then some (.b false) else none
  | .dec => s.toInt?.map Val.d

def cellText : Option Val → String
  | none => "~"
  | some (.i x) => toString x
  | some (.f b) => hex16 b
  | some (.s x) => if x.isEmpty then "-" else x
  | some (.b x) => if x then "1" else "0"
  | some (.d x) => toString x

def parseCol (f : String) : Option (String × Col) :=
  match f.splitOn ":" with
  | [hn, t, flag, cells] =>
    match parseTy t with
    | none => none
    | some ty =>
      let cs := if cells.isEmpty then [] else cells.splitOn ","
      let vals? := cs.foldr (fun c acc => match acc with
        | none => none
        | some l => if c == "~" then some (ty.zero :: l) else (parseCell ty c).map (· :: l)) (some [])
      match vals? with
      | none => none
      | some vals =>
        let valid := if flag == "v" then some (cs.map (· != "~")) else none
        some (if hn == "-" then "" else unhexS hn, { ty := ty, vals := vals, valid := valid })
  | _ => none

def parseBatch (fs : List String) : Option Batch :=
  (fs.foldr (fun f acc => match acc, parseCol f with
    | some l, some c => some (c :: l)
    | _, _ => none) (some [])).map (fun cols => { cols := cols })

/-! ### canonical texts -/

def insCol (p : String × Col) : List (String × Col) → List (String × Col)
  | [] => [p]
  | q :: rest => if p.1 < q.1 then p :: q :: rest else q :: insCol p rest

def sortCols (cs : List (String × Col)) : List (String × Col) := cs.foldr insCol []

/-- rendered cells of a column, row-major-free: zip payload and validity -/
def colCells (c : Col) (n : Nat) : Array String :=
  let vs := c.vals.toArray
  match c.valid with
  | none => (Array.range n).map (fun i => cellText (some (vs.getD i c.ty.zero)))
  | some v =>
    let va := v.toArray
    (Array.range n).map (fun i => if va.getD i false then cellText (some (vs.getD i c.ty.zero)) else "~")

structure View where
  names : Array String     -- hex names
  tys   : Array String
  flags : Array String
  cells : Array (Array String)
  times : Array Int
  n     : Nat

def viewOf (b : Batch) (parquet : Bool) : View :=
  let cs := sortCols (if parquet then b.cols.filter (fun p => !internalName p.1) else b.cols)
  let n := b.n
  { names := (cs.map (fun p => hexS p.1)).toArray
    tys := (cs.map (fun p => tyChar p.2.ty)).toArray
    flags := (cs.map (fun p => if parquet then "p" else if p.2.valid.isSome then "v" else "n")).toArray
    cells := (cs.map (fun p => colCells p.2 n)).toArray
    times := b.times.toArray
    n := n }

def View.rowText (v : View) (i : Nat) : String :=
  (List.range v.names.size).foldl
    (fun acc k => acc ++ v.names[k]! ++ "=" ++ ((v.cells[k]!).getD i "!") ++ ";")
    (toString (v.times.getD i 0) ++ ";")

def View.rowTexts (v : View) : List String := (List.range v.n).map v.rowText

/-- sort the row texts inside every maximal run of equal timestamps -/
def tieCanon (times : Array Int) (rows : List String) : List String :=
  let rec go (i : Nat) (rs : List String) (cur : List String) (curT : Int) (acc : List String) : List String :=
    match rs with
    | [] => acc ++ cur.mergeSort (fun a b => !(b < a))
    | r :: rest =>
      let t := times.getD i 0
      if cur.isEmpty then go (i + 1) rest [r] t acc
      else if t == curT then go (i + 1) rest (r :: cur) curT acc
      else go (i + 1) rest [r] t (acc ++ cur.mergeSort (fun a b => !(b < a)))
  go 0 rows [] 0 []

def View.colsText (v : View) : String :=
  if v.names.size == 0 then "-" else
  ",".intercalate ((List.range v.names.size).map (fun k => v.names[k]! ++ ":" ++ v.tys[k]! ++ ":" ++ v.flags[k]!))

def View.canon (v : View) (wantExact : Bool) (sep : String := " ") : String :=
  let rows := v.rowTexts
  let ex := if wantExact then h16 (hashLines rows) else "-"
  s!"n={v.n}{sep}cols={v.colsText}{sep}exact={ex}{sep}canon={h16 (hashLines (tieCanon v.times rows))}"

/-- the row as the property sees it: time + non-NULL cells of the non-internal columns -/
def View.nonNullRow (v : View) (i : Nat) : String :=
  (List.range v.names.size).foldl
    (fun acc k =>
      let c := (v.cells[k]!).getD i "!"
      if c == "~" || v.names[k]! == "74696d65" then acc else acc ++ v.names[k]! ++ "=" ++ v.tys[k]! ++ c ++ ";")
    (toString (v.times.getD i 0) ++ ";")

/-! ### calendar (proleptic Gregorian, UTC) for the hour directory -/

def pad (w : Nat) (n : Int) : String :=
  let s := toString n.toNat
  String.ofList (List.replicate (w - s.length) '0') ++ s

def hourDir (h : Int) : String :=
  let days := h / 24
  let hh := h % 24
  let z := days + 719468
  let era := z / 146097
  let doe := z % 146097
  let yoe := (doe - doe / 1460 + doe / 36524 - doe / 146096) / 365
  let y := yoe + era * 400
  let doy := doe - (365 * yoe + yoe / 4 - yoe / 100)
  let mp := (5 * doy + 2) / 153
  let d := doy - (153 * mp + 2) / 5 + 1
  let m := if mp + 3 > 12 then mp + 3 - 12 else mp + 3
  let y := if m ≤ 2 then y + 1 else y
  s!"{pad 4 y}/{pad 2 m}/{pad 2 d}/{pad 2 hh}"

def parseInts (s : String) : Option (List Int) :=
  if s == "-" then some [] else
  (s.splitOn ",").foldr (fun c acc => match acc, c.toInt? with
    | some l, some x => some (x :: l)
    | _, _ => none) (some [])

def parseNats (s : String) : Option (List Nat) :=
  if s == "-" then some [] else
  (s.splitOn ",").foldr (fun c acc => match acc, c.toNat? with
    | some l, some x => some (x :: l)
    | _, _ => none) (some [])

def pathName : SortPath → String
  | .empty => "empty" | .sorted => "sorted" | .cmp => "cmp" | .radix => "radix"

def insBucket (p : Int × List Nat) : List (Int × List Nat) → List (Int × List Nat)
  | [] => [p]
  | q :: rest => if p.1 < q.1 then p :: q :: rest else q :: insBucket p rest

def insFile (p : OutFile) : List OutFile → List OutFile
  | [] => [p]
  | q :: rest => if p.hour < q.hour then p :: q :: rest else q :: insFile p rest

/-! ### driver state -/

structure DS where
  stack  : List Batch := []
  maxBuf : Nat := 0
  st     : St := {}
  nfresh : Bool := true

def whyOf : String → Option Why
  | "schema" => some .schema | "age" => some .age | "flushall" => some .flushAll | "close" => some .close
  | _ => none

def idsOf (l : List TBatch) : List Nat := l.map TBatch.id

def findIdx (l : List Task) (k : String) (ids : List Nat) : Option Nat :=
  l.findIdx? (fun t => t.key == k && idsOf t.batches == ids)

def applyEv (s : DS) (e : Ev) (okText : String := "ok") : DS × String :=
  match step s.maxBuf s.st e with
  | some st' => ({ s with st := st' }, okText)
  | none => (s, "bad:not-enabled")

def fileRows (key : String) (hour : Int) (b : Batch) : List String :=
  let v := viewOf b true
  (List.range v.n).map (fun i => hexS key ++ "|" ++ toString hour ++ "|" ++ v.nonNullRow i)

def sortedInts : List Int → Bool
  | [] => true
  | [_] => true
  | a :: b :: rest => decide (a ≤ b) && sortedInts (b :: rest)

def stepC03 (s : DS) (fs : List String) : DS × String :=
  match fs with
  | ["hour", t] =>
    match int? t with
    | some t =>
      let h := hourBucketID t
      (s, s!"{h} {hourDir h} {hourDir (hourBucketID (hourStartMicro64 h))}")
    | none => (s, "bad-op")
  | ["hour64", t] =>
    match int? t with
    | some t => let h := hourBucketID64 t; (s, s!"{h} {hourStartMicro64 h}")
    | none => (s, "bad-op")
  | ["bias", t] =>
    match int? t with
    | some t => (s, toString (bias t))
    | none => (s, "bad-op")
  | ["group", ts] =>
    match parseInts ts with
    | some [] => (s, "err:empty")
    | some (t0 :: rest) =>
      let ts := t0 :: rest
      let ta := ts.toArray
      let bks := (groupByHour ts).foldr insBucket []
      let parts := bks.map (fun p =>
        let tsOf := p.2.map (fun i => ta.getD i 0)
        match tsOf with
        | [] => s!"{p.1}:0"
        | x :: xs => s!"{p.1}:{p.2.length}:{hashInts p.2}:{listMin x xs}:{listMax x xs}")
      (s, " ".intercalate (s!"k={bks.length} min={listMin t0 rest} max={listMax t0 rest}" :: parts))
    | none => (s, "bad-op")
  | ["perm", ts] =>
    match parseInts ts with
    | some ts =>
      let path := sortPath ts
      let ta := ts.toArray
      match permuteByTime ts with
      | none => (s, s!"path={pathName path} times={h16 (hashLines (ts.map toString))} exact=nil")
      | some ix =>
        let ex := if path == .radix then hashInts ix else "-"
        (s, s!"path={pathName path} times={h16 (hashLines (ix.map (fun i => toString (ta.getD i 0))))} exact={ex}")
    | none => (s, "bad-op")
  | ["radix", ts] =>
    match parseInts ts with
    | some [] => (s, "nil")
    | some ts =>
      let ta := ts.toArray
      let ix := radixPermuteByTime ts
      (s, s!"times={h16 (hashLines (ix.map (fun i => toString (ta.getD i 0))))} exact={hashInts ix}")
    | none => (s, "bad-op")
  | "b" :: specs =>
    match parseBatch specs with
    | some b => ({ s with stack := s.stack ++ [b] }, s!"ok n={b.n}")
    | none => (s, "bad-op")
  | ["merge"] =>
    let s' := { s with stack := [] }
    match mergeBatches s.stack with
    | .ok m => (s', (viewOf m false).canon true)
    | .error .noBatches => (s', "err:no-batches")
    | .error .typeConflict => (s', "err:type-conflict")
  | ["sort"] =>
    match s.stack with
    | [b] =>
      let path := sortPath b.times
      ({ s with stack := [] }, (viewOf (sortBatch b) false).canon (path != .cmp) ++ " path=" ++ pathName path)
    | _ => (s, "bad-op")
  | ["slice", ix] =>
    match s.stack, parseNats ix with
    | [b], some ix => ({ s with stack := [] }, (viewOf (b.gather ix) false).canon true)
    | _, _ => (s, "bad-op")
  | ["flush"] =>
    let s' := { s with stack := [] }
    match flushTask s.stack with
    | .error (.merge .typeConflict) => (s', "err:type-conflict")
    | .error (.merge _) => (s', "err:merge")
    | .error .noTime => (s', "err:no-time")
    | .ok files =>
      let fl := files.foldr insFile []
      (s', " ".intercalate (s!"files={fl.length}" :: fl.map (fun f => hourDir f.hour ++ "|" ++ (viewOf f.batch true).canon false "|")))
  -- ---- part B: trace replay through the LTS
  | ["lts-new", m] =>
    match nat? m with
    | some m => ({ s with maxBuf := m, st := {}, nfresh := true }, "ok")
    | none => (s, "bad-op")
  | "ev-write" :: k :: id :: specs =>
    match nat? id, parseBatch specs with
    | some id, some b => applyEv s (.write (unhexS k) ⟨id, b⟩)
    | _, _ => (s, "bad-op")
  | ["ev-extract", k, ids] =>
    match parseNats ids with
    | some ids =>
      let k := unhexS k
      if (bufOf s.st k).map idsOf != some ids then (s, "bad:buffer-content") else applyEv s (.extract k)
    | none => (s, "bad-op")
  | ["ev-sync", why, k, ids] =>
    match whyOf why, parseNats ids with
    | some w, some ids =>
      let k := unhexS k
      if (bufOf s.st k).map idsOf != some ids then (s, "bad:buffer-content") else applyEv s (.syncFlush w k)
    | _, _ => (s, "bad-op")
  | ["ev-enq", k, ids] =>
    match parseNats ids with
    | some ids =>
      match findIdx s.st.held (unhexS k) ids with
      | some i => applyEv s (.enqueue i)
      | none => (s, "bad:no-such-held-task")
    | none => (s, "bad-op")
  | ["ev-enqfail", k, ids, _why] =>
    match parseNats ids with
    | some ids =>
      match findIdx s.st.held (unhexS k) ids with
      | some i => applyEv s (.enqFail i)
      | none => (s, "bad:no-such-held-task")
    | none => (s, "bad-op")
  | ["ev-take", k, ids] =>
    match parseNats ids with
    | some ids =>
      match findIdx s.st.queue (unhexS k) ids with
      | some i => applyEv s (.take i)
      | none => (s, "bad:no-such-queued-task")
    | none => (s, "bad-op")
  | ["ev-dropq", k, ids] =>
    match parseNats ids with
    | some ids =>
      match findIdx s.st.queue (unhexS k) ids with
      | some i => applyEv s (.dropQueued i)
      | none => (s, "bad:no-such-queued-task")
    | none => (s, "bad-op")
  | ["ev-close"] => applyEv s .close
  | "ev-store" :: k :: dir :: name :: specs =>
    match parseBatch specs with
    | some fb =>
      let k := unhexS k
      let want := (viewOf fb true).canon false
      match s.st.inflight.findIdx? (fun f => f.key == k && hourDir f.hour == dir && (viewOf f.batch true).canon false == want) with
      | some j =>
        let e := Ev.store j (unhexS name)
        let fr := freshAt s.st e
        applyEv { s with nfresh := s.nfresh && fr } e (if fr then "ok fresh=1" else "ok fresh=0")
      | none => (s, "bad:no-pending-file-matches")
    | none => (s, "bad-op")
  | ["final"] =>
    let st := s.st
    let acc := st.accepted.flatMap (fun p =>
      let v := viewOf p.2 true
      (List.range v.n).map (fun i => hexS p.1 ++ "|" ++ toString (hourBucketID (v.times.getD i 0)) ++ "|" ++ v.nonNullRow i))
    let sto := st.files.flatMap (fun q => fileRows q.1.key q.1.hour q.2.batch)
    let le := fun (a b : String) => !(b < a)
    let eq := acc.mergeSort le == sto.mergeSort le
    let filesOK := st.files.all (fun q =>
      q.1.key == q.2.key && q.1.hour == q.2.hour &&
      sortedInts q.2.batch.times && q.2.batch.times.all (fun t => hourBucketID t == q.2.hour))
    (s, s!"quiescent={quiescent st} dropped={st.dropped.length} failed={st.failed.length} files={st.files.length} stored_rows={sto.length} accepted_rows={acc.length} stored_eq_accepted={eq} files_ok={filesOK} fresh={s.nfresh}")
  | _ => (s, "bad-op")

end C03Drive

def main : IO Unit := Arc.Proto.run C03Drive.stepC03 {}
