import Arc.Base.Proto
import Arc.Model.C24
/-! Model driver for C24: replays the harness's event trace through the LTS `Arc.C24.step`
(every op must be an enabled transition) and prints the outcome the model predicts.
MAC / hash checks are decided symbolically: a tag verifies iff the frame's (seq, payload) is what
the sender emitted under that very tag in this session; a checkpoint HMAC verifies iff the frame's
(last_seq, hash) are those of the checkpoint record the HMAC was produced for; the hash is its own
pre-image (`α := Option Bytes`, `hashFn := some`). -/
open Arc.Proto Arc.C24

structure DS where
  cfg : Cfg := ⟨false, 1, 1⟩
  tol : Int := 300
  s : State := {}

def hashFn (b : Bytes) : Option Bytes := some b

def dropStr : Drop → String
  | .tag => "tag" | .seq => "seq" | .ckptCluster => "ckpt-cluster" | .ckptSeq => "ckpt-seq"
  | .ckptHash => "ckpt-hash" | .ckptStale => "ckpt-stale" | .ckptMac => "ckpt-mac"
  | .bad => "bad" | .eof => "eof"

def dropOut (s : State) : String :=
  match s.lastDrop with
  | some d => "drop:" ++ dropStr d
  | none => "drop:?"

def ckRef (s : State) (r : String) : Option CkRec :=
  if r.startsWith "c" then
    match (r.drop 1).toNat? with
    | some i => s.ckpts[i]?
    | none => none
  else none

def stepC24 (d : DS) (fs : List String) : DS × String :=
  let s := d.s
  match fs with
  | ["cfg", a, cap, iv, tol] =>
    match nat? cap, nat? iv, int? tol with
    | some cap, some iv, some tol => ({ cfg := ⟨a == "1", cap, iv⟩, tol := tol, s := {} }, "ok")
    | _, _, _ => (d, "bad-op")
  | ["a", t, p] =>
    match nat? t, unhex p with
    | some t, some p =>
      match step d.cfg hashFn s (.assign t p) with
      | some s' => ({ d with s := s' }, s!"seq={s'.ctr}")
      | none => (d, "not-enabled")
    | _, _ => (d, "bad-op")
  | ["e", t] =>
    match nat? t with
    | some t =>
      match step d.cfg hashFn s (.enqueue t) with
      | some s' => ({ d with s := s' }, if s'.dropped.length > s.dropped.length then "dropped" else "queued")
      | none => (d, "not-enabled")
    | none => (d, "bad-op")
  | ["d"] =>
    match step d.cfg hashFn s (Ev.dist (α := Option Bytes)) with
    | some s' =>
      let o := if !s.active then "discard" else
        match s'.sent.getLast? with
        | some e =>
          let ck := if s'.ckpts.length > s.ckpts.length then toString e.seq else "-"
          s!"sent seq={e.seq} ck={ck}"
        | none => "sent ?"
      ({ d with s := s' }, o)
    | none => (d, "not-enabled")
  | ["con"] =>
    match step d.cfg hashFn s (Ev.connect (α := Option Bytes)) with
    | some s' => ({ d with s := s' }, "ok")
    | none => (d, "not-enabled")
  | ["det"] =>
    match step d.cfg hashFn s (Ev.detach (α := Option Bytes)) with
    | some s' => ({ d with s := s' }, "ok")
    | none => (d, "not-enabled")
  | ["de", seq, p, tref, aok] =>
    match nat? seq, unhex p with
    | some seq, some p =>
      let tagOk := match nat? tref with
        | some ts => ts == seq && s.sent.contains ⟨seq, p⟩
        | none => false
      let applyOk := aok == "1"
      match step d.cfg hashFn s (.deliverE seq p tagOk applyOk) with
      | some s' =>
        let o := if !s'.conn then dropOut s'
                 else if s'.applied.length > s.applied.length then "applied" else "applyfail"
        ({ d with s := s' }, o)
      | none => (d, "not-enabled")
    | _, _ => (d, "bad-op")
  | ["dc", l, href, cl, drift, mref] =>
    match nat? l, int? drift with
    | some l, some drift =>
      let h : Option Bytes :=
        if href == "e" then some [] else (ckRef s href).map (·.pre)
      let adr := if drift < 0 then -drift else drift
      let fresh := decide (adr ≤ d.tol)
      let macOk := match ckRef s mref with
        | some r => r.lastSeq == l && h == some r.pre
        | none => false
      match step d.cfg hashFn s (.deliverC l h (cl == "1") fresh macOk) with
      | some s' => ({ d with s := s' }, if s'.conn then "ckpt-ok" else dropOut s')
      | none => (d, "not-enabled")
    | _, _ => (d, "bad-op")
  | ["db", _] =>
    match step d.cfg hashFn s (Ev.deliverBad (α := Option Bytes)) with
    | some s' => ({ d with s := s' }, dropOut s')
    | none => (d, "not-enabled")
  | ["cl"] =>
    match step d.cfg hashFn s (Ev.close (α := Option Bytes)) with
    | some s' => ({ d with s := s' }, dropOut s')
    | none => (d, "not-enabled")
  | ["end"] =>
    let ds := ",".intercalate (s.dropped.map toString)
    (d, s!"last={s.lastSeq} applied={s.applied.length} dropped=[{ds}]")
  | _ => (d, "bad-op")

def main : IO Unit := Arc.Proto.run stepC24 {}
