import Arc.Base.Proto
import Arc.Model.C10
/-! Model driver for C10 (reads ops on stdin, prints one line per op). The keep filters are the
ones regenerated from the current `delete.go` (`countKeep`, `rewriteKeepLocal`: the harness runs on
a `LocalBackend`). -/
open Arc.Proto Arc.C10

/-- blanks inside string cells travel as ^_ (space) ^t ^n, ^^ = ^ -/
def unescWS : List Char → List Char
  | '^' :: '_' :: r => ' ' :: unescWS r
  | '^' :: 't' :: r => '\t' :: unescWS r
  | '^' :: 'n' :: r => '\n' :: unescWS r
  | '^' :: '^' :: r => '^' :: unescWS r
  | c :: r => c :: unescWS r
  | [] => []

def escWS : List Char → List Char
  | [] => []
  | c :: r =>
    (if c = '^' then ['^', '^'] else if c = ' ' then ['^', '_'] else if c = '\t' then ['^', 't']
     else if c = '\n' then ['^', 'n'] else [c]) ++ escWS r

def parseCell (s : String) : Option Cell :=
  if s == "~" then some .null else
  match s.toList with
  | k :: ':' :: rest =>
    let body := String.ofList rest
    if k = 's' then some (.str (unescWS rest))
    else match body.toInt? with
      | none => none
      | some n =>
        if k = 'i' then some (.int n)
        else if k = 'f' then some (.flt n)
        else if k = 't' then some (.ts n)
        else if k = 'b' then some (.bool (n != 0))
        else none
  | _ => none

def parseAll {α β : Type} (f : α → Option β) : List α → Option (List β)
  | [] => some []
  | a :: as => match f a, parseAll f as with
    | some b, some bs => some (b :: bs)
    | _, _ => none

def parseRow (s : String) : Option Row := parseAll parseCell (s.splitOn ",")

def parseRows (s : String) : Option (List Row) :=
  if s == "-" then some [] else parseAll parseRow (s.splitOn ";")

def parseCmp : String → Option Cmp
  | "eq" => some .eq | "ne" => some .ne | "lt" => some .lt
  | "le" => some .le | "gt" => some .gt | "ge" => some .ge
  | _ => none

/-- prefix-notation predicate parser; fuel bounds the recursion by the number of tokens. -/
def parsePred : Nat → List String → Option (Pred × List String)
  | 0, _ => none
  | fuel + 1, toks =>
    match toks with
    | "cmp" :: op :: c :: l :: rest =>
      match parseCmp op, c.toNat?, parseCell l with
      | some op, some c, some l => some (.cmp op c l, rest)
      | _, _, _ => none
    | "and" :: rest =>
      match parsePred fuel rest with
      | some (a, rest) => match parsePred fuel rest with
        | some (b, rest) => some (.and a b, rest)
        | none => none
      | none => none
    | "or" :: rest =>
      match parsePred fuel rest with
      | some (a, rest) => match parsePred fuel rest with
        | some (b, rest) => some (.or a b, rest)
        | none => none
      | none => none
    | "not" :: rest =>
      match parsePred fuel rest with
      | some (a, rest) => some (.not a, rest)
      | none => none
    | "in" :: c :: n :: rest =>
      match c.toNat?, n.toNat? with
      | some c, some n =>
        if rest.length < n then none else
        match parseAll parseCell (rest.take n) with
        | some ls => some (.inList c ls, rest.drop n)
        | none => none
      | _, _ => none
    | "like" :: c :: l :: rest =>
      match c.toNat?, parseCell l with
      | some c, some (.str pat) => some (.like c pat, rest)
      | _, _ => none
    | "isnull" :: c :: rest => c.toNat?.map (fun c => (.isNull c, rest))
    | "notnull" :: c :: rest => c.toNat?.map (fun c => (.notNull c, rest))
    | "lit" :: v :: rest =>
      if v == "t" then some (.lit (some true), rest)
      else if v == "f" then some (.lit (some false), rest)
      else if v == "n" then some (.lit none, rest)
      else none
    | _ => none

def encCell : Cell → String
  | .null => "~"
  | .int v => s!"i:{v}"
  | .flt q => s!"f:{q}"
  | .str s => "s:" ++ String.ofList (escWS s)
  | .bool b => if b then "b:1" else "b:0"
  | .ts us => s!"t:{us}"

def encRows (rs : List Row) : String :=
  if rs.isEmpty then "-" else ";".intercalate (rs.map (fun r => ",".intercalate (r.map encCell)))

def baseName (p : String) : String := (p.splitOn "/").getLast!

/-- insertion sort of strings (the harness prints sorted base names) -/
def insertSorted (s : String) : List String → List String
  | [] => [s]
  | a :: as => if s < a then s :: a :: as else a :: insertSorted s as

def sortStrs (l : List String) : List String := l.foldr insertSorted []

def rejectStr : Reject → String
  | .fullTableConfirm => "fulltable-confirm"
  | .confirmRequired => "confirm-required"
  | .maxRows => "max-rows"
  | .threshold => "threshold"

def dumpStr (ds : Dataset) : String :=
  if ds.isEmpty then "empty" else "|".intercalate (ds.map (fun f => f.path ++ "=[" ++ encRows f.rows ++ "]"))

def insertFile (f : File) : Dataset → Dataset
  | [] => [f]
  | a :: as => if f.path < a.path then f :: a :: as else a :: insertFile f as

def stepC10 (ds : Dataset) (fs : List String) : Dataset × String :=
  match fs with
  | ["ds"] => ([], "ok")
  | ["file", path, rows] =>
    match parseRows rows with
    | some rs => (insertFile { path := path, rows := rs } ds, s!"ok rows={rs.length}")
    | none => (ds, "bad-op")
  | ["dump"] => (ds, dumpStr ds)
  -- an unreadable *.parquet file in the measurement: not a data file; the handler skips it (per-file
  -- fallback scan) and the healthy files behave as if it were not there
  | ["junk", _path, _kind] => (ds, "ok")
  | "del" :: dry :: confirm :: mx :: thr :: ptoks =>
    match int? mx, int? thr, parsePred (ptoks.length + 1) ptoks with
    | some mx, some thr, some (p, []) =>
      let q : Req := { dry := dry == "1", confirm := confirm == "1", maxRows := mx, threshold := thr, p := p }
      let (ds', o) := handle Arc.Generated.C10.countKeep Arc.Generated.C10.rewriteKeepLocal ds q
      match o with
      | .rejected why => (ds', s!"status=400 err={rejectStr why}")
      | .ok r =>
        let names := sortStrs (r.files.map baseName)
        let fl := if names.isEmpty then "-" else ",".intercalate names
        (ds', s!"status=200 success=true deleted={r.deleted} affected={r.affected} rewritten={r.rewritten} files={fl} failed=-")
    | _, _, _ => (ds, "bad-op")
  | _ => (ds, "bad-op")

def main : IO Unit := Arc.Proto.run stepC10 []
