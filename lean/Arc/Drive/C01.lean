import Arc.Base.Proto
import Arc.Model.C01
import Arc.Model.C01.Float
/-! Model driver for C01: one op per line.
  batch <prec> <nowMicros> <hex>   → records of ParseBatchWithPrecision
  col   <prec> <nowMicros> <hex>   → BatchToColumnar of those records
  typed <prec> <nowMicros> <hex>   → convertColumnsToTyped of every measurement
Canonical text: maps sorted by key bytes, floats as bit patterns, byte strings in hex. -/
open Arc.Proto Arc.C01

namespace Arc.C01.Drive

def bytesLt : Bytes → Bytes → Bool
  | [], [] => false
  | [], _ :: _ => true
  | _ :: _, [] => false
  | a :: as, b :: bs => if a < b then true else if a > b then false else bytesLt as bs

def sortBy {α : Type} (key : α → Bytes) (xs : List α) : List α :=
  (xs.toArray.qsort (fun a b => bytesLt (key a) (key b))).toList

def hex16 (v : UInt64) : String :=
  let n := v.toNat
  String.ofList ((List.range 16).map fun i => hexDigit ((n / 16 ^ (15 - i)) % 16))

def goVal : GoVal → String
  | .f64 b => "f:" ++ hex16 b
  | .i64 v => "i:" ++ toString v
  | .u64 v => "u:" ++ toString v
  | .str s => "s:" ++ hex s
  | .bool b => if b then "b:1" else "b:0"

def joinOr (sep : String) (xs : List String) : String := if xs.isEmpty then "-" else sep.intercalate xs

def record (r : Record) : String :=
  hex r.meas ++ "|" ++
  joinOr "," ((sortBy (·.1) r.tags).map fun p => hex p.1 ++ "=" ++ hex p.2) ++ "|" ++
  joinOr "," ((sortBy (·.1) r.fields).map fun p => hex p.1 ++ "=" ++ goVal p.2) ++ "|" ++ toString r.ts

def precOf (s : String) : Prec :=
  if s == "us" then .us else if s == "ms" then .ms else if s == "s" then .s else .ns

def cell : Option GoVal → String
  | none => "_"
  | some v => goVal v

def colRec (c : ColRec) : String :=
  "m=" ++ hex c.meas ++ " n=" ++ toString c.n ++ " tags=" ++ joinOr "," ((sortBy id c.tagCols).map hex) ++
  " cols=" ++ joinOr "/" ((sortBy (·.1) c.cols).map fun p => hex p.1 ++ ":[" ++ ",".intercalate (p.2.map cell) ++ "]")

def bits (bs : List Bool) : String := String.ofList (bs.map fun b => if b then '1' else '0')

def typedCol (name : Bytes) (t : TypedCol) : String :=
  let d := match t.data with
    | .i64 vs => "i64:[" ++ ",".intercalate (vs.map toString) ++ "]"
    | .f64 vs => "f64:[" ++ ",".intercalate (vs.map hex16) ++ "]"
    | .str vs => "str:[" ++ ",".intercalate (vs.map hex) ++ "]"
    | .bool vs => "bool:[" ++ bits vs ++ "]"
  hex name ++ ":" ++ d ++ ":" ++ (match t.validity with | none => "-" | some v => bits v)

def typedRec (c : ColRec) : String :=
  "m=" ++ hex c.meas ++ " " ++
  match convertColumns Float.toInt64 Float.ofInt c.cols with
  | none => "err"
  | some cols => "cols=" ++ joinOr "/" ((sortBy (·.1) cols).map fun p => typedCol p.1 p.2)

def step (_ : Unit) (fs : List String) : Unit × String :=
  match fs with
  | [op, prec, now, payload] =>
    match int? now, unhex payload with
    | some now, some data =>
      let recs := parseBatch Float.parseFloat now (precOf prec) data
      if op == "batch" then
        ((), toString recs.length ++ " " ++ joinOr ";" (recs.map record))
      else if op == "col" then
        let cs := sortBy (·.meas) (batchToColumnar recs)
        ((), toString cs.length ++ " " ++ joinOr " ; " (cs.map colRec))
      else if op == "typed" then
        let cs := sortBy (·.meas) (batchToColumnar recs)
        ((), toString cs.length ++ " " ++ joinOr " ; " (cs.map typedRec))
      else ((), "bad-op")
    | _, _ => ((), "bad-op")
  | _ => ((), "bad-op")

end Arc.C01.Drive

def main : IO Unit := Arc.Proto.run Arc.C01.Drive.step ()
