import Arc.Base.Proto
import Arc.Model.C25
import Arc.Generated.C25
/-! Model driver for C25 (reads ops on stdin, prints one line per op).

ops
  facts <statPartFallback> <deleteRemovesPart> <presenceNeedsFinal> <promoteAfterVerdict> <resumeFullPart>   (0/1; must equal the generated facts)
  new <contentHex> <maxAttempts> <finalHex|none> <partHex|none>          (new manifest file + replica state)
  proc                                                                    (a new processEntry call)
  att <o1,o2,…|->                                                         (one attempt; one outcome per candidate peer)
outcome tokens: dial err nop bad wsz wsh ok t<i> c<i>

The hash is instantiated with the identity (a collision-free hash): "digest equal" = "bytes equal".
-/
open Arc.Proto Arc.C25

structure DS where
  f : Facts := Arc.Generated.C25.facts
  content : Bytes := []
  maxA : Nat := 3
  rep : Rep := ⟨none, none⟩
  cnt : Counters := {}
  ps : Option PState := none

def bytes? (s : String) : Option Bytes := (unhex s).map (·.map UInt8.toNat)
def file? (s : String) : Option (Option Bytes) :=
  if s == "none" then some none else (bytes? s).map some

def hexB (b : Bytes) : String := hex (b.map UInt8.ofNat)
def fileStr : Option Bytes → String
  | none => "none"
  | some b => hexB b

def outcome? (s : String) : Option Outcome :=
  match s with
  | "dial" => some .dialFail
  | "err" => some .errAck
  | "nop" => some .notOnPeer
  | "bad" => some .badOffset
  | "wsz" => some .ackWrongSize
  | "wsh" => some .ackWrongHash
  | "ok" => some .ok
  | _ =>
    match s.toList with
    | 't' :: rest => (String.ofList rest).toNat?.map .trunc
    | 'c' :: rest => (String.ofList rest).toNat?.map .corrupt
    | _ => none

def outcomes? (s : String) : Option (List Outcome) :=
  if s == "-" then some [] else (s.splitOn ",").mapM outcome?

def stStr : St → String
  | .running => "cont" | .pulled => "pulled" | .skipped => "skipped" | .failed => "failed"
  | .exhausted => "exhausted"

def natsStr (l : List Nat) : String :=
  if l.isEmpty then "-" else ",".intercalate (l.map toString)

def delsStr (l : List (Option Bytes)) : String :=
  if l.isEmpty then "-" else ",".intercalate (l.map fileStr)

/-- `dels` = what each cleanup `Delete` of the attempt found at the final path -/
def render (s : PState) (dels : List (Option Bytes)) : String :=
  s!"final={fileStr s.rep.final} part={fileStr s.rep.part} pulled={s.cnt.pulled} skipped={s.cnt.skippedLocal} failed={s.cnt.failed} cksum={s.cnt.cksum} badoff={s.cnt.badOffset} nopeer={s.cnt.noPeer} offs={natsStr s.offs} dels={delsStr dels} st={stStr s.st}"

def bit? (s : String) : Option Bool :=
  if s == "1" then some true else if s == "0" then some false else none

def stepC25 (s : DS) (fs : List String) : DS × String :=
  match fs with
  | ["facts", a, b, c, d, e] =>
    match bit? a, bit? b, bit? c, bit? d, bit? e with
    | some a, some b, some c, some d, some e =>
      let f : Facts := ⟨a, b, c, d, e⟩
      if f = Arc.Generated.C25.facts then ({ s with f := f }, "ok") else (s, "facts-differ-from-generated")
    | _, _, _, _, _ => (s, "bad-op")
  | ["new", c, m, fi, pa] =>
    match bytes? c, nat? m, file? fi, file? pa with
    | some c, some m, some fi, some pa =>
      ({ s with content := c, maxA := m, rep := ⟨fi, pa⟩, cnt := {}, ps := none }, "ok")
    | _, _, _, _ => (s, "bad-op")
  | ["proc"] => ({ s with ps := some (PState.start s.rep s.cnt) }, "ok")
  | ["att", os] =>
    match outcomes? os, s.ps with
    | some os, some ps =>
      if ps.st ≠ .running then (s, "no-attempt-in-model")
      else
        let ps' := attemptStep (fun (b : Bytes) => b) s.f s.content s.maxA ps os
        let dels := attemptDels (fun (b : Bytes) => b) s.f s.content ps os
        ({ s with ps := some ps', rep := ps'.rep, cnt := ps'.cnt }, render ps' dels)
    | _, _ => (s, "bad-op")
  | _ => (s, "bad-op")

def main : IO Unit := Arc.Proto.run stepC25 {}
