import Arc.Base.Proto
import Arc.Model.C13Current
/-! Model driver for C13 (reads ops on stdin, prints one line per op).

    tree <n> <path> <hex> … (n pairs, any order)                          → ok n=<n>
    backup inc=<mc> mf=<0|1> sf=<0|1> cf=<0|1> r=<p,p|-> w=<p:pre,p:<k>|->  → completed … | failed:<class>
    restore into=<empty|orig> opts=<dmc> mf= sf= cf= r=<…> w=<…>          → completed … | failed:<class> …
    each fault list is followed by rt=<p:n:d,…> wt=<p:n:pre|k,…> (TRANSIENT: first n attempts fail)
    (inc / opts are bit strings: metadata,config / data,metadata,config; sf/cf = SQLite / arc.toml step fails)
-/
open Arc.Proto Arc.C13

structure DS where
  tree : Tree := []
  bk : Backup := { status := .failedCopy, store := [], manifest := none, processed := 0, pbytes := 0,
                   skipped := 0, total := 0 }

def fnv (bs : Bytes) : UInt64 :=
  bs.foldl (fun h b => (h ^^^ b.toUInt64) * 1099511628211) 14695981039346656037

def flatLt : Path → Path → Bool
  | [], [] => false
  | [], _ :: _ => true
  | _ :: _, [] => false
  | a :: as, b :: bs => if a.toNat < b.toNat then true else if b.toNat < a.toNat then false else flatLt as bs

def showTree (t : Tree) : String :=
  "[" ++ ";".intercalate ((sortBy flatLt t).map fun e =>
    s!"{String.ofList e.1}:{e.2.length}:{(fnv e.2).toNat}") ++ "]"

def kv (key : String) (s : String) : Option String :=
  if s.startsWith (key ++ "=") then some ((s.drop (key.length + 1)).toString) else none

def parseList (s : String) : List String :=
  if s == "-" then [] else (s.splitOn ",").filter (· ≠ "")

def parseWrite (s : String) : Option (Path × Option Nat) :=
  match s.splitOn ":" with
  | [p, "pre"] => some (p.toList, none)
  | [p, k] => (nat? k).map fun k => (p.toList, some k)
  | _ => none

def parseReadT (s : String) : Option (Path × Nat × Nat) :=
  match s.splitOn ":" with
  | [p, n, d] => match nat? n, nat? d with
    | some n, some d => some (p.toList, n, d)
    | _, _ => none
  | _ => none

def parseWriteT (s : String) : Option (Path × Nat × Option Nat) :=
  match s.splitOn ":" with
  | [p, n, "pre"] => (nat? n).map fun n => (p.toList, n, none)
  | [p, n, k] => match nat? n, nat? k with
    | some n, some k => some (p.toList, n, some k)
    | _, _ => none
  | _ => none

def parseFaults (mf sf cf r w rt wt : String) : Option Faults :=
  match kv "mf" mf, kv "sf" sf, kv "cf" cf, kv "r" r, kv "w" w, kv "rt" rt, kv "wt" wt with
  | some mf, some sf, some cf, some r, some w, some rt, some wt =>
    match (parseList w).mapM parseWrite, (parseList rt).mapM parseReadT, (parseList wt).mapM parseWriteT with
    | some ws, some rts, some wts =>
      some { manifest := mf == "1", sqlite := sf == "1", config := cf == "1",
             read := (parseList r).map String.toList, write := ws, readT := rts, writeT := wts }
    | _, _, _ => none
  | _, _, _, _, _, _, _ => none

def bits (s : String) (n : Nat) : Option (List Bool) :=
  let cs := s.toList
  if cs.length == n && cs.all (fun c => c == '0' || c == '1') then some (cs.map (· == '1')) else none

def b01 (b : Bool) : String := if b then "1" else "0"

def parsePairs : List String → Tree → Option Tree
  | [], acc => some acc.reverse
  | [_], _ => none
  | p :: h :: rest, acc =>
    match unhex h with
    | some b => parsePairs rest ((p.toList, b) :: acc)
    | none => none

def stepC13 (s : DS) (fs : List String) : DS × String :=
  match fs with
  | "tree" :: n :: rest =>
    match nat? n, parsePairs rest [] with
    | some n, some t =>
      if t.length == n then ({ s with tree := t }, s!"ok n={n}") else (s, "bad-op")
    | _, _ => (s, "bad-op")
  | ["backup", inc, mf, sf, cf, r, w, rt, wt] =>
    match (kv "inc" inc).bind (bits · 2), parseFaults mf sf cf r w rt wt with
    | some [im, ic], some f =>
      let bk := backupFull current { metadata := im, config := ic } f (walkSort s.tree)
      let out := match bk.status, bk.manifest with
        | .completed, some m =>
          s!"completed total={m.totalFiles} size={m.totalSize} skipped={m.skipped} dbs={m.dbs} meas={m.meas} " ++
          s!"hasmeta={b01 m.hasMetadata} hascfg={b01 m.hasConfig} " ++
          s!"ptotal={bk.total} processed={bk.processed} pbytes={bk.pbytes} pskipped={bk.skipped} store={showTree bk.store}"
        | .failedCopy, _ => "failed:copy"
        | .failedRatio, _ => "failed:ratio"
        | .failedManifest, _ => "failed:manifest"
        | .completed, none => "failed:internal"
      ({ s with bk := bk }, out)
    | _, _ => (s, "bad-op")
  | ["restore", into, opts, mf, sf, cf, r, w, rt, wt] =>
    match kv "into" into, (kv "opts" opts).bind (bits · 3), parseFaults mf sf cf r w rt wt with
    | some into, some [od, om, oc], some f =>
      if into != "empty" && into != "orig" then (s, "bad-op") else
      let d0 : Tree := if into == "orig" then s.tree else []
      let r := restoreBackup current { data := od, metadata := om, config := oc } f s.bk d0
      let st := match r.status with
        | .completed => "completed"
        | .failedNoManifest => "failed:nomanifest"
        | .failedData => "failed:data"
        | .failedSqlite => "failed:sqlite"
        | .failedConfig => "failed:config"
      (s, s!"{st} processed={r.processed} total={r.total} pbytes={r.pbytes} tbytes={r.tbytes} " ++
          s!"db={b01 r.sqliteRestored} cfg={b01 r.configRestored} tree={showTree r.data}")
    | _, _, _ => (s, "bad-op")
  | _ => (s, "bad-op")

def main : IO Unit := Arc.Proto.run stepC13 {}
