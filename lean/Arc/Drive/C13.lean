import Arc.Base.Proto
import Arc.Model.C13Current
/-! Model driver for C13 (reads ops on stdin, prints one line per op).

    tree <n> <path> <hex> … (n pairs, any order)          → ok n=<n>
    backup mf=<0|1> r=<p,p|-> w=<p:pre,p:<k>|->           → completed …  | failed:<class>
    restore into=<empty|orig> mf=<0|1> r=<…> w=<…>        → completed …  | failed:<class> …
-/
open Arc.Proto Arc.C13

structure DS where
  tree : Tree := []
  bk : Backup := { status := .failedCopy, store := [], manifest := none, processed := 0, pbytes := 0,
                   skipped := 0, total := 0 }

def fnv (bs : Bytes) : UInt64 :=
  bs.foldl (fun h b => (h ^^^ b.toUInt64) * 1099511628211) 14695981039346656037

def flatLt : Path → Path → Bool
  | [], [] => false
  | [], _ :: _ => true
  | _ :: _, [] => false
  | a :: as, b :: bs => if a.toNat < b.toNat then true else if b.toNat < a.toNat then false else flatLt as bs

def showTree (t : Tree) : String :=
  "[" ++ ";".intercalate ((sortBy flatLt t).map fun e =>
    s!"{String.ofList e.1}:{e.2.length}:{(fnv e.2).toNat}") ++ "]"

def kv (key : String) (s : String) : Option String :=
  if s.startsWith (key ++ "=") then some ((s.drop (key.length + 1)).toString) else none

def parseList (s : String) : List String :=
  if s == "-" then [] else (s.splitOn ",").filter (· ≠ "")

def parseWrite (s : String) : Option (Path × Option Nat) :=
  match s.splitOn ":" with
  | [p, "pre"] => some (p.toList, none)
  | [p, k] => (nat? k).map fun k => (p.toList, some k)
  | _ => none

def parseFaults (mf r w : String) : Option Faults :=
  match kv "mf" mf, kv "r" r, kv "w" w with
  | some mf, some r, some w =>
    match (parseList w).mapM parseWrite with
    | some ws => some { manifest := mf == "1", read := (parseList r).map String.toList, write := ws }
    | none => none
  | _, _, _ => none

def parsePairs : List String → Tree → Option Tree
  | [], acc => some acc.reverse
  | [_], _ => none
  | p :: h :: rest, acc =>
    match unhex h with
    | some b => parsePairs rest ((p.toList, b) :: acc)
    | none => none

def stepC13 (s : DS) (fs : List String) : DS × String :=
  match fs with
  | "tree" :: n :: rest =>
    match nat? n, parsePairs rest [] with
    | some n, some t =>
      if t.length == n then ({ s with tree := t }, s!"ok n={n}") else (s, "bad-op")
    | _, _ => (s, "bad-op")
  | ["backup", mf, r, w] =>
    match parseFaults mf r w with
    | some f =>
      let bk := backup current f (walkSort s.tree)
      let out := match bk.status, bk.manifest with
        | .completed, some m =>
          s!"completed total={m.totalFiles} size={m.totalSize} skipped={m.skipped} dbs={m.dbs} meas={m.meas} " ++
          s!"ptotal={bk.total} processed={bk.processed} pbytes={bk.pbytes} pskipped={bk.skipped} store={showTree bk.store}"
        | .failedCopy, _ => "failed:copy"
        | .failedRatio, _ => "failed:ratio"
        | .failedManifest, _ => "failed:manifest"
        | .completed, none => "failed:internal"
      ({ s with bk := bk }, out)
    | none => (s, "bad-op")
  | ["restore", into, mf, r, w] =>
    match kv "into" into, parseFaults mf r w with
    | some into, some f =>
      if into != "empty" && into != "orig" then (s, "bad-op") else
      let d0 : Tree := if into == "orig" then s.tree else []
      let r := restore current f s.bk d0
      let st := match r.status with
        | .completed => "completed"
        | .failedNoManifest => "failed:nomanifest"
        | .failedData => "failed:data"
      (s, s!"{st} processed={r.processed} total={r.total} pbytes={r.pbytes} tbytes={r.tbytes} tree={showTree r.data}")
    | _, _ => (s, "bad-op")
  | _ => (s, "bad-op")

def main : IO Unit := Arc.Proto.run stepC13 {}
