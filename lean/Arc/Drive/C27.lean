import Arc.Base.Proto
import Arc.Model.C27
/-! Model driver for C27 (reads ops on stdin, prints one line per op). The digest is `id`. -/
open Arc.Proto Arc.C27

structure DS where
  maxAttempts : Nat := 5
  spokes : List (String × Spoke) := []
  hub : Hub := []
  marks : List (String × Nat) := []    -- per spoke: log entries already printed

def DS.spoke (s : DS) (sid : String) : Spoke := (s.spokes.lookup sid).getD {}
def DS.setSpoke (s : DS) (sid : String) (sp : Spoke) : DS :=
  { s with spokes := (sid, sp) :: s.spokes.filter (fun p => !(p.1 == sid)) }

def optHex : Option Bytes → String
  | none => "."
  | some b => hex b

def parseFault (t : String) : Option Fault :=
  let lost := t.endsWith "!"
  let t := if lost then ((t.dropEnd 1).toString) else t
  let mk (k : FK) : Option Fault := some { kind := k, lostAck := lost }
  match t.splitOn ":" with
  | ["n"] => mk .none
  | ["db"] => mk .dropBefore
  | ["he"] => mk .hubErr
  | ["bp"] => mk .backpressure
  | ["rf"] => mk .recFail
  | ["fc"] => mk .fakeConflict
  | ["sh", k] => (nat? k).bind fun k => mk (.short k)
  | ["co", i] => (nat? i).bind fun i => mk (.corrupt i)
  | ["sc", k, i] => (nat? k).bind fun k => (nat? i).bind fun i => mk (.shortCorrupt k i)
  | _ => none

def parseFaults : List String → Option (List Fault)
  | [] => some []
  | t :: ts => do
    let f ← parseFault t
    let fs ← parseFaults ts
    pure (f :: fs)

def keyLe (a b : Key × HObj) : Bool :=
  !(decide (b.1.1 < a.1.1)) && (a.1.1 != b.1.1 || !(decide (b.1.2 < a.1.2)))

def objStr (p : Key × HObj) : String :=
  let o := p.2
  let i := match o.idx with
    | none => "."
    | some (s, c) => hex s ++ (if c then "c" else "")
  s!"{p.1.1}/{p.1.2},F={optHex o.final},S={optHex o.sfull},P={optHex o.spart},I={i},N={o.promotes}"

def hubStr (h : Hub) : String :=
  let objs := isort keyLe (h.filter fun p =>
    p.2.final.isSome || p.2.sfull.isSome || p.2.spart.isSome || p.2.idx.isSome || p.2.promotes > 0)
  if objs.isEmpty then "-" else " ".intercalate (objs.map objStr)

def rowPathLe (a b : Row) : Bool := !(decide (b.path < a.path))

def ledgerStr (l : List Row) : String :=
  if l.isEmpty then "-" else
  " ".intercalate ((isort rowPathLe l).map fun r => s!"{r.path}:{r.state.name}:{r.attempts}:{r.sent}")

def logStr (es : List LogE) : String :=
  if es.isEmpty then "-" else
  " ".intercalate (es.map fun e =>
    let o := match e.old with | none => "" | some s => s.name
    s!"{e.path}:{o}>{e.new.name}")

def withObj (s : DS) (sid path : String) (f : HObj → HObj) : DS × String :=
  ({ s with hub := s.hub.set (sid, path) (f (s.hub.get (sid, path))) }, "ok")

def stepC27 (s : DS) (fs : List String) : DS × String :=
  match fs with
  | ["init", m] =>
    match nat? m with
    | some m => ({ maxAttempts := m }, "ok")
    | none => (s, "bad-op")
  | ["sput", sid, path, pt, hx] =>
    match nat? pt, unhex hx with
    | some pt, some b =>
      let sp := s.spoke sid
      if sp.files.any (fun f => f.path == path) then (s, "dup") else
      (s.setSpoke sid { sp with files := sp.files ++ [{ path := path, pt := pt, bytes := b }] }, "ok")
    | _, _ => (s, "bad-op")
  | ["srm", sid, path] =>
    let sp := s.spoke sid
    (s.setSpoke sid { sp with files := sp.files.filter (fun f => !(f.path == path)) }, "ok")
  | ["hplant", sid, path, hx, ix] =>
    match unhex hx with
    | some b => withObj s sid path (fun o => hubPlant id o b (ix == "1"))
    | none => (s, "bad-op")
  | ["hdel", sid, path] => withObj s sid path hubDelete
  | ["hcompact", sid, path, del] => withObj s sid path (fun o => hubCompact o (del == "1"))
  | ["hsweep", sid, path] => withObj s sid path hubSweep
  | ["hcdel", sid, path] => withObj s sid path hubCompactDelete
  | ["hredeliver", sid, path] =>
    -- a delivery outside the reconcile protocol (air-gap bundle import / duplicate): whole file, offset 0
    match (s.spoke sid).file? path with
    | none => (s, "nofile")
    | some fl =>
      let q : Req := { sha := fl.bytes, size := fl.bytes.length, off := 0, body := fl.bytes, bodyErr := false, failRec := false }
      let (o, res) := receive id (s.hub.get (sid, path)) q
      let out := match res with
        | .committed _ => "committed" | .already _ => "already" | .part _ => "partial"
        | .conflict => "conflict" | .mismatch => "mismatch" | .backpressure => "backpressure" | .err => "err"
      ({ s with hub := s.hub.set (sid, path) o }, out)
  | "run" :: sid :: inst :: batch :: cap :: crash :: faults =>
    -- `inst` (new | same): a fresh Agent/process or the same long-lived Agent instance. The model does
    -- not distinguish them: every pass starts with RecoverInFlight (C27_recover_every_pass).
    let crashAt : Option (Option Nat) := if crash == "-" then some none else (nat? crash).map some
    let crashAt := if inst == "new" || inst == "same" then crashAt else none
    match nat? batch, nat? cap, crashAt, parseFaults faults with
    | some batch, some cap, some crashAt, some faults =>
      let cfg : Cfg := { maxAttempts := s.maxAttempts, batch := batch, cap := cap }
      let r := runAgent id cfg sid (s.spoke sid) s.hub crashAt faults
      let s' := { (s.setSpoke sid r.sp) with hub := r.hub }
      let c := r.cnt
      let out :=
        if !r.alive then "crashed"
        else if r.err then "err"
        else s!"ok rec={c.recovered} disc={c.discovered} present={c.present} sent={c.sent} partial={c.partialN} failed={c.failed} skipped={c.skipped} conflicts={c.conflicts} bytes={c.bytes}"
      (s', out)
    | _, _, _, _ => (s, "bad-op")
  | ["ledger", sid] => (s, ledgerStr (s.spoke sid).ledger)
  | ["log", sid] =>
    let sp := s.spoke sid
    let seen := (s.marks.lookup sid).getD 0
    ({ s with marks := (sid, sp.log.length) :: s.marks.filter (fun p => !(p.1 == sid)) },
     logStr (sp.log.drop seen))
  | ["hub"] => (s, hubStr s.hub)
  | _ => (s, "bad-op")

def main : IO Unit := Arc.Proto.run stepC27 {}
