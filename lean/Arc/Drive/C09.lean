import Arc.Base.Proto
import Arc.Model.C09
/-! Model driver for C09 (reads ops on stdin, prints one line per op). -/
open Arc.Proto Arc.C09

structure DS where
  minFiles : Nat := 0
  maxBatch : Nat := 0
  kidMode  : Bool := false
  plevel   : Nat := 3
  st   : St := initSt []
  orig : List (Path × File) := []

def cfgOf (d : DS) : Cfg := genCfg d.minFiles d.maxBatch dedupFirst

def insSorted (x : Nat) : List Nat → List Nat
  | [] => [x]
  | y :: ys => if x ≤ y then x :: y :: ys else y :: insSorted x ys

def sortNat (l : List Nat) : List Nat := l.foldl (fun acc x => insSorted x acc) []

def joinWith (sep : String) : List String → String
  | [] => ""
  | [x] => x
  | x :: xs => x ++ sep ++ joinWith sep xs

def pname (p : Path) : String := if p < outBase then s!"i{p}" else s!"o{p - outBase}"

def showFile (kid : Bool) (pl : Nat) (x : Path × File) : String :=
  let nm := pname x.1 ++ (if x.2.level != 0 then s!"*{x.2.level}" else "")
  if !x.2.complete then nm ++ ":!" else
  let ids := sortNat (x.2.rows.map (fun r => if kid then keyAt pl r else r.rid))
  nm ++ ":" ++ joinWith "," (ids.map toString)

def insFile (x : Path × File) : List (Path × File) → List (Path × File)
  | [] => [x]
  | y :: ys => if x.1 ≤ y.1 then x :: y :: ys else y :: insFile x ys

def showMan (m : Manifest) : String :=
  "[" ++ joinWith "," (m.inputs.map pname) ++ "]>" ++ pname m.out

def showState (d : DS) : String :=
  let fs := d.st.files.foldl (fun acc x => insFile x acc) []
  "files=" ++ joinWith ";" (fs.map (showFile d.kidMode d.plevel)) ++ " man=" ++ joinWith ";" (d.st.mans.map showMan)

def showOutcome (j : JobRec) : String :=
  match j.outcome with
  | .ok => s!"ok{j.nmut}"
  | .killed => s!"died@{j.nmut}"
  | .crashed => s!"crashed@{j.nmut}"

def showJob (j : JobRec) : String :=
  s!"j{j.idx}:b{j.batch}:[" ++ joinWith "," (j.files.map pname) ++ "]:" ++ showOutcome j

def parseRow (s : String) : Option Row :=
  match s.splitOn ":" with
  | [a, b, c, e, g] => match nat? a, nat? b, nat? c, nat? e, nat? g with
    | some a, some b, some c, some e, some g => some { rid := a, k1 := b, k2 := c, k3 := e, k4 := g }
    | _, _, _, _, _ => none
  | _ => none

def parseRows (s : String) : Option (List Row) :=
  if s == "-" then some [] else (s.splitOn ",").mapM parseRow

def parseFault (s : String) : Option Fault :=
  match s.splitOn ":" with
  | [j, kp] =>
    match nat? j, kp.toList with
    | some j, c :: rest =>
      match nat? (String.ofList rest) with
      | some p =>
        if c == 'k' then some { job := j, pos := p, kind := .kill }
        else if c == 'c' then some { job := j, pos := p, kind := .crash }
        else if c == 'p' then some { job := j, pos := p, kind := .torn }
        else if c == 'x' then some { job := j, pos := p, kind := .cancel }
        else none
      | none => none
    | _, _ => none
  | _ => none

def parsePlan (s : String) : Option (List Fault) :=
  if s == "-" then some [] else (s.splitOn ",").mapM parseFault

def dedupNat : List Nat → List Nat
  | [] => []
  | x :: xs => if xs.contains x then dedupNat xs else x :: dedupNat xs

def checkLine (d : DS) : String :=
  let orig := rowsOf d.orig
  let vis := visible d.st
  let anyDedup := d.orig.any (fun x => x.2.level != 0)
  if !d.kidMode && !anyDedup then
    let ids := dedupNat ((orig ++ vis).map (fun r => r.rid))
    let cnt (l : List Row) (i : Nat) := (l.filter (fun r => r.rid == i)).length
    let lost := (ids.map (fun i => cnt orig i - cnt vis i)).foldl (· + ·) 0
    let dup := (ids.map (fun i => cnt vis i - cnt orig i)).foldl (· + ·) 0
    s!"lost={lost} dup={dup}"
  else
    let pl := d.plevel
    let ids := dedupNat ((orig ++ vis).map (fun r => keyAt pl r))
    let lost := (ids.filter (fun k => countKey pl k orig > 0 && countKey pl k vis == 0)).length
    let dup := (ids.map (fun k => countKey pl k vis - countKey pl k orig)).foldl (· + ·) 0
    s!"lost={lost} dup={dup}"

def recFailPaths (d : DS) (i : Nat) : List Path :=
  match d.st.mans with
  | m :: _ => match m.inputs[i % m.inputs.length]? with
    | some p => [p]
    | none => []
  | [] => []

def cycleOpts (d : DS) : List String → Option (List Path)
  | [] => some []
  | o :: rest =>
    match o.splitOn "=", cycleOpts d rest with
    | ["recfail", i], some acc => (nat? i).map (fun i => recFailPaths d i ++ acc)
    | ["age", n], some acc => (nat? n).map (fun _ => acc)
    | ["zerots"], some acc => some acc
    | _, _ => none

def doCycle (d : DS) (plan : List Fault) (failing : List Path) : DS × String :=
  let r := cycle (cfgOf d) plan failing d.st
  ({ d with st := r.st }, "jobs=" ++ joinWith " " (r.log.map showJob))

def stepC09 (d : DS) (fs : List String) : DS × String :=
  match fs with
  | ["new", _kind, mode, pl, minF, maxB, _bd] =>
    match nat? minF, nat? maxB, nat? pl with
    | some a, some b, some pl => ({ minFiles := a, maxBatch := b, kidMode := mode == "kid", plevel := pl }, "ok")
    | _, _, _ => (d, "bad-op")
  | ["file", idx, lv, _meta, rows] =>
    match nat? idx, nat? lv, parseRows rows with
    | some i, some lv, some rs =>
      let f : File := { rows := rs, level := lv, isOut := false, complete := true }
      let fs' := d.st.files ++ [(i, f)]
      ({ d with st := { d.st with files := fs' }, orig := fs' }, s!"ok {rs.length}")
    | _, _, _ => (d, "bad-op")
  | ["scan"] => (d, showState d)
  | "cycle" :: plan :: opts =>
    -- options: recfail=<i> (a recovery delete fails), age=<seconds> / zerots (time passed since the
    -- manifest was written / zero created_at: recovery does not depend on a manifest's age)
    match parsePlan plan, cycleOpts d opts with
    | some p, some failing => doCycle d p failing
    | _, _ => (d, "bad-op")
  | ["check"] => (d, checkLine d)
  | _ => (d, "bad-op")

def main : IO Unit := Arc.Proto.run stepC09 {}
