import Arc.Base.Proto
import Arc.Model.C32
/-! Model driver for C32 (reads ops on stdin, prints one line per op). -/
open Arc.Proto Arc.C32

namespace C32Drive

def name? (t : String) : Option Name := if t == "~" then some [] else unhex t

def hx (n : Name) : String := hex n

/-- the harness's role: database-level write on `allowed_db`, narrowed to measurements `cpu`, `mem` (an empty
measurement is a database-level question, as in auth.RBACManager) -/
def allowFn (db m : Name) : Bool := db == str "allowed_db" && (m == [] || m == str "cpu" || m == str "mem")

def cfg? (t : String) : Option Cfg :=
  if t == "rbac" then some { rbacOn := true, hasToken := true, allow := allowFn }
  else if t == "off" then some { rbacOn := false, hasToken := true, allow := allowFn }
  else if t == "notoken" then some { rbacOn := true, hasToken := false, allow := allowFn }
  else none

def insertSorted (x : String) : List String → List String
  | [] => [x]
  | y :: ys => if x < y then x :: y :: ys else if x == y then y :: ys else y :: insertSorted x ys

def sortU (xs : List String) : String := ",".intercalate (xs.foldl (fun acc x => insertSorted x acc) [])

def statusStr : Status → String
  | .ok => "ok" | .bad => "400" | .denied => "403" | .err => "500"

def slashJoin : List Name → Name
  | [] => []
  | [a] => a
  | a :: b => a ++ slash :: slashJoin b

/-- normalised storage path: (everything before the partition segments) | (file name without stamp) -/
def normPath (k : Key) : String :=
  match flushPath (bufferKey k) (str "P") (str "S") with
  | none => "nopath"
  | some p =>
    let segs := splitSlash p
    let file := segs.getLast?.getD []
    hx (slashJoin (segs.take (segs.length - 2))) ++ "|" ++ hx (file.take (file.length - 2))

def keysStr (ks : List Key) : String := sortU (ks.map (fun k => hx (bufferKey k)))

def outStr (o : Out) : String :=
  let chk := if o.status == .ok || o.status == .err then sortU (o.checked.map (fun m => hx o.db ++ ":" ++ hx m)) else "*"
  s!"st={statusStr o.status} chk=[{chk}] keys=[{if o.flushed then "" else keysStr o.keys}] fl={if o.flushed then 1 else 0} paths=[{sortU (o.keys.map normPath)}] rkeys=[{keysStr (replicate o)}]"

def names? : Nat → List String → Option (List Name × List String)
  | 0, ts => some ([], ts)
  | n + 1, t :: ts => do
    let x ← name? t
    let (xs, r) ← names? n ts
    pure (x :: xs, r)
  | _, [] => none

def counted? (ts : List String) : Option (List Name × List String) :=
  match ts with
  | n :: r => do names? (← nat? n) r
  | [] => none

def mval? (t : String) : Option MVal :=
  if t.startsWith "s" then (name? (t.drop 1).toString).map MVal.s
  else if t.startsWith "i" then ((t.drop 1).toString.toInt?).map MVal.i
  else none

mutual
  partial def item? (ts : List String) : Option (Item × List String) :=
    match ts with
    | "C" :: m :: r => do
      let mv ← mval? m
      let (cols, r) ← counted? r
      pure (.col mv cols, r)
    | "R" :: m :: r => do
      let mv ← mval? m
      let (tags, r) ← counted? r
      let (fields, r) ← counted? r
      pure (.row mv tags fields, r)
    | "E" :: r => some (.bad, r)
    | "J" :: r => some (.junk, r)
    | "B" :: n :: r => do
      let (is, r) ← items? (← nat? n) r
      pure (.batch is, r)
    | _ => none
  partial def items? (n : Nat) (ts : List String) : Option (Items × List String) :=
    match n with
    | 0 => some (.nil, ts)
    | n + 1 => do
      let (i, r) ← item? ts
      let (is, r) ← items? n r
      pure (.cons i is, r)
end

def top? (ts : List String) : Option Top :=
  match ts with
  | ["0"] => some .empty
  | ["X"] => some .scalar
  | "M" :: r => match item? r with
    | some (i, []) => some (.map i)
    | _ => none
  | "A" :: n :: r => match nat? n with
    | some n => match items? n r with
      | some (is, []) => some (.arr is)
      | _ => none
    | none => none
  | _ => none

partial def points? (n : Nat) (ts : List String) : Option (List Point) :=
  match n, ts with
  | 0, [] => some []
  | 0, _ => none
  | n + 1, "Z" :: r => (points? n r).map (Point.junk :: ·)
  | n + 1, "P" :: m :: r => do
    let mn ← name? m
    let (tags, r) ← counted? r
    let (fields, r) ← counted? r
    let ps ← points? n r
    pure (.p mn tags fields :: ps)
  | _, _ => none

def lpEp? : String → Option LpEp
  | "v1" => some .v1 | "v2" => some .v2 | "simple" => some .simple | "import" => some .imp | _ => none
def oneEp? : String → Option OneEp
  | "csv" => some .csv | "parquet" => some .parquet | "tle" => some .tle | "itle" => some .itle | _ => none

def val? (t : String) : Option Val :=
  if t == "n" then some .n else if t == "z" then some .z
  else if t.startsWith "s" then (name? (t.drop 1).toString).map Val.s else none

partial def row? (n : Nat) (ts : List String) : Option (Row × List String) :=
  match n, ts with
  | 0, r => some ([], r)
  | n + 1, k :: v :: r => do
    let kn ← name? k
    let vv ← val? v
    let (kvs, r) ← row? n r
    pure ((kn, vv) :: kvs, r)
  | _, _ => none

partial def rows? (n : Nat) (ts : List String) : Option (List Row) :=
  match n, ts with
  | 0, [] => some []
  | 0, _ => none
  | n + 1, k :: r => do
    let (row, r) ← row? (← nat? k) r
    let rs ← rows? n r
    pure (row :: rs)
  | _, _ => none

def inner? (ts : List String) : Option Inner :=
  match ts with
  | ["G"] => some .garbage
  | ["K", m, n] => do
    let nc ← nat? n
    if m == "~" then pure (.colmap none nc) else
    match ← mval? m with
    | .s v => pure (.colmap (some v) nc)
    | .i _ => pure (.colmap none nc)
  | "W" :: n :: r => do
    let rs ← rows? (← nat? n) r
    pure (.rows rs)
  | _ => none

def step (_ : Unit) (fs : List String) : Unit × String :=
  let out : Option String :=
    match fs with
    | "mp" :: mode :: hdr :: _qdb :: rest => do
      let c ← cfg? mode
      let h ← name? hdr
      let top ← top? rest
      let ext := match mpExtract top with
        | none => "!"
        | some ms => sortU (ms.map hx)
      pure (s!"ext=[{ext}] " ++ outStr (mpHandle c h top))
    | "lp" :: ep :: mode :: hdr :: qdb :: qb :: qm :: n :: rest => do
      let e ← lpEp? ep
      let c ← cfg? mode
      let pts ← points? (← nat? n) rest
      pure (outStr (lpHandle c e (← name? hdr) (← name? qdb) (← name? qb) (← name? qm) pts))
    | "one" :: ep :: mode :: hdr :: qdb :: mp :: fok :: _nrows :: rest => do
      let e ← oneEp? ep
      let c ← cfg? mode
      let (cols, r) ← counted? rest
      if r ≠ [] then none else
      pure (outStr (oneHandle c e (← name? hdr) (← name? qdb) (← name? mp) (fok == "1") cols))
    | ["alias", _ep, _src, dbB, mB, dbC, mC] => do
      -- stage "reused RequestCtx + parked flush worker": each request's rows are stored under ITS database
      let b : Key := ⟨← name? dbB, ← name? mB⟩
      let c : Key := ⟨← name? dbC, ← name? mC⟩
      pure s!"b={hx (bufferKey b)} c={hx (bufferKey c)}"
    | "rep" :: pre :: ilen :: rest => do
      let p ← unhex pre
      let n ← nat? ilen
      let inner ← inner? rest
      let (db, rem) := parseEnvelope (p ++ List.replicate n 0)
      -- the inner payload is what the harness encoded only when the cut falls exactly behind the prefix
      let i := if rem.length = n then inner else .garbage
      pure s!"res=ok db={hx db} keys=[{keysStr (applyInner db i)}]"
    | _ => none
  ((), out.getD "bad-op")

end C32Drive

def main : IO Unit := Arc.Proto.run C32Drive.step ()
