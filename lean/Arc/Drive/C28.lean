import Arc.Base.Proto
import Arc.Model.C28
/-! Model driver for C28 (reads ops on stdin, prints one line per op). -/
open Arc.Proto Arc.C28

structure DS where
  sw : SW := swNew 60000000000 60 0 0
  qt : QT := qtNew 0 0 0
  m  : Mgr := { defaults := ⟨0, 0, 0, 0⟩, toks := [] }

/-- non-zero physical slots as `i:v,i:v` (or `-`). -/
def slotsStr (s : SW) : String :=
  let xs := (List.zip (List.range s.n) s.slots).filter (fun p => p.2 != 0)
  if xs.isEmpty then "-" else ",".intercalate (xs.map fun p => s!"{p.1}:{p.2}")

def swStr (s : SW) : String :=
  s!"total={s.total} cur={s.cur} last={s.last} limit={s.limit} slots={slotsStr s}"

def qtStr (q : QT) : String :=
  s!"h={q.h} d={q.dc} hr={q.hourResetAt} dr={q.dayResetAt} mh={q.maxH} md={q.maxD}"

def tokStr (k : Tok) : String :=
  let a := match k.minute with | some s => "M[" ++ swStr s ++ "]" | none => "M[-]"
  let b := match k.hour with | some s => "H[" ++ swStr s ++ "]" | none => "H[-]"
  let c := match k.qt with | some q => "Q[" ++ qtStr q ++ "]" | none => "Q[-]"
  a ++ " " ++ b ++ " " ++ c

def verdictStr : Verdict → String
  | .admitted => "admit"
  | .rlMinute r => s!"rl-minute retry={r}"
  | .rlHour r => s!"rl-hour retry={r}"
  | .quotaHour => "q-hour"
  | .quotaDay => "q-day"

/-- `k` sequential `Allow`s at one instant: (state, admitted). -/
def swBurst : Nat → SW → Int → Nat → SW × Nat
  | 0, s, _, a => (s, a)
  | k + 1, s, now, a => let r := swAllow s now; swBurst k r.1 now (if r.2 then a + 1 else a)

def qtBurst : Nat → QT → Int → Nat × Nat × Nat → QT × (Nat × Nat × Nat)
  | 0, q, _, c => (q, c)
  | k + 1, q, now, (a, h, d) =>
    let r := qtAllow q now
    qtBurst k r.1 now (match r.2 with | .ok => (a + 1, h, d) | .hour => (a, h + 1, d) | .day => (a, h, d + 1))

structure Tally where
  adm : Nat := 0
  rlm : Nat := 0
  rlh : Nat := 0
  qh : Nat := 0
  qd : Nat := 0

def mBurst : Nat → Mgr → Int → Int → Tally → Mgr × Tally
  | 0, m, _, _, c => (m, c)
  | k + 1, m, t, now, c =>
    let r := query m t now
    mBurst k r.1 t now (match r.2 with
      | .admitted => { c with adm := c.adm + 1 }
      | .rlMinute _ => { c with rlm := c.rlm + 1 }
      | .rlHour _ => { c with rlh := c.rlh + 1 }
      | .quotaHour => { c with qh := c.qh + 1 }
      | .quotaDay => { c with qd := c.qd + 1 })

def stepC28 (s : DS) (fs : List String) : DS × String :=
  match fs with
  | ["sw.new", w, slots, limit, now] =>
    match int? w, int? slots, int? limit, int? now with
    | some w, some slots, some limit, some now =>
      let x := swNew w slots limit now
      ({ s with sw := x }, s!"ok d={x.d} n={x.n} last={x.last}")
    | _, _, _, _ => (s, "bad-op")
  | ["sw.allow", now] =>
    match int? now with
    | some now =>
      let r := swAllow s.sw now
      ({ s with sw := r.1 }, (if r.2 then "1 " else "0 ") ++ swStr r.1)
    | none => (s, "bad-op")
  | ["sw.burst", now, k] =>
    match int? now, nat? k with
    | some now, some k =>
      let r := swBurst k s.sw now 0
      ({ s with sw := r.1 }, s!"adm={r.2} " ++ swStr r.1)
    | _, _ => (s, "bad-op")
  | ["sw.limit", l] =>
    match int? l with
    | some l => ({ s with sw := swSetLimit s.sw l }, "ok")
    | none => (s, "bad-op")
  | ["sw.rem", now] =>
    match int? now with
    | some now =>
      let r := swRemaining s.sw now
      ({ s with sw := r.1 }, s!"rem={r.2} " ++ swStr r.1)
    | none => (s, "bad-op")
  | ["sw.retry", now] =>
    match int? now with
    | some now =>
      let r := swRetryAfter s.sw now
      ({ s with sw := r.1 }, s!"retry={r.2} " ++ swStr r.1)
    | none => (s, "bad-op")
  | ["qt.new", mh, md, now] =>
    match int? mh, int? md, int? now with
    | some mh, some md, some now =>
      let q := qtNew mh md now
      ({ s with qt := q }, "ok " ++ qtStr q)
    | _, _, _ => (s, "bad-op")
  | ["qt.allow", now] =>
    match int? now with
    | some now =>
      let r := qtAllow s.qt now
      ({ s with qt := r.1 }, (match r.2 with | .ok => "ok " | .hour => "hour " | .day => "day ") ++ qtStr r.1)
    | none => (s, "bad-op")
  | ["qt.burst", now, k] =>
    match int? now, nat? k with
    | some now, some k =>
      let r := qtBurst k s.qt now (0, 0, 0)
      ({ s with qt := r.1 }, s!"adm={r.2.1} hour={r.2.2.1} day={r.2.2.2} " ++ qtStr r.1)
    | _, _ => (s, "bad-op")
  | ["qt.limits", mh, md] =>
    match int? mh, int? md with
    | some mh, some md => ({ s with qt := qtSetLimits s.qt mh md }, "ok")
    | _, _ => (s, "bad-op")
  | ["qt.usage", now] =>
    match int? now with
    | some now =>
      let q := maybeReset s.qt now
      ({ s with qt := q }, qtStr q)
    | none => (s, "bad-op")
  | ["m.new", a, b, c, d] =>
    match int? a, int? b, int? c, int? d with
    | some a, some b, some c, some d => ({ s with m := { defaults := ⟨a, b, c, d⟩, toks := [] } }, "ok")
    | _, _, _, _ => (s, "bad-op")
  | ["m.set", t, a, b, c, d, _now] =>
    match int? t, int? a, int? b, int? c, int? d with
    | some t, some a, some b, some c, some d =>
      let m := setPolicy s.m t ⟨a, b, c, d⟩
      ({ s with m := m }, "ok " ++ tokStr (m.get t))
    | _, _, _, _, _ => (s, "bad-op")
  | ["m.del", t] =>
    match int? t with
    | some t =>
      let m := delPolicy s.m t
      ({ s with m := m }, "ok " ++ tokStr (m.get t))
    | none => (s, "bad-op")
  | ["m.query", t, now] =>
    match int? t, int? now with
    | some t, some now =>
      let r := query s.m t now
      ({ s with m := r.1 }, verdictStr r.2 ++ " " ++ tokStr (r.1.get t))
    | _, _ => (s, "bad-op")
  | ["m.burst", t, now, k] =>
    match int? t, int? now, nat? k with
    | some t, some now, some k =>
      let r := mBurst k s.m t now {}
      let c := r.2
      ({ s with m := r.1 },
        s!"admit={c.adm} rlm={c.rlm} rlh={c.rlh} qh={c.qh} qd={c.qd} " ++ tokStr (r.1.get t))
    | _, _, _ => (s, "bad-op")
  | ["m.usage", t, now] =>
    match int? t, int? now with
    | some t, some now =>
      let r := usage s.m t now
      let u := r.2
      ({ s with m := r.1 },
        s!"h={u.1} d={u.2.1} hr={u.2.2.1} dr={u.2.2.2.1} remM={u.2.2.2.2.1} remH={u.2.2.2.2.2} " ++ tokStr (r.1.get t))
    | _, _ => (s, "bad-op")
  | _ => (s, "bad-op")

def main : IO Unit := Arc.Proto.run stepC28 {}
