import Arc.Base.Proto
import Arc.Model.C02
/-!
Model driver for C02. One op per line:

    dec <hex body>      → `T=<typed fast path: miss | hit{rec}> G=<generic path outcome>`
    wal <hex body>      → `on=<WAL record with the fast path on> off=<… off>` (typed hits only)

`T` is `tryDecodeColumnarTyped` alone, `G` is `Decode` with the fast path off followed by
`convertColumnsToTyped` for every columnar record. Generated time columns carry `now` = the virtual clock the harness sets (1 700 000 000 000 000 µs);
masking them is done by `observe` in the theorems, not here.
The IEEE-754 instance of `FloatSem` (Go on amd64: out-of-range / NaN float→int64 conversions give
0x8000000000000000) lives here; the theorems never see it.
-/
open Arc.Proto Arc.C02

namespace Arc.C02.Drive

def f64 (b : Nat) : Float := Float.ofBits (UInt64.ofNat b)
def f32 (b : Nat) : Float32 := Float32.ofBits (UInt32.ofNat b)

def minI64 : Int := -9223372036854775808
def p63 : Float := 9223372036854775808.0
def p63s : Float32 := 9223372036854775808.0
def p64 : Float := 18446744073709551616.0
def maxF32 : Float := 3.40282346638528859811704183484516925440e+38

def truncF (f : Float) : Float := if f < 0 then f.ceil else f.floor

/-- float32 → float64 (exact). Lean's `Float.toBits` canonicalises NaNs, the hardware (CVTSS2SD, what
Go executes) keeps sign and payload and sets the quiet bit — done by hand for NaNs. -/
def widen (b : Nat) : Nat :=
  let e := (b / 2 ^ 23) % 256
  let m := b % 2 ^ 23
  let s := (b / 2 ^ 31) % 2
  if e == 255 && m != 0 then s * 2 ^ 63 + 0x7ff * 2 ^ 52 + Nat.lor (m * 2 ^ 29) (2 ^ 51)
  else (f32 b).toFloat.toBits.toNat

def ieee : FloatSem where
  f2i b := let f := f64 b
    if f.isNaN || f ≥ p63 || f < -p63 then minI64 else f.toInt64.toInt
  i2f v := if v ≥ 0 then (UInt64.ofNat v.toNat).toFloat.toBits.toNat
           else (Int64.ofInt v).toFloat.toBits.toNat
  f32to64 b := widen b
  gtMaxI64 b := f64 b > p63
  ltMinI64 b := f64 b < -p63
  f32toI b := let f := f32 b
    if f.isNaN || f ≥ p63s || f < -p63s then minI64 else f.toInt64.toInt
  f32gtMax b := f32 b > p63s
  f32ltMin b := f32 b < -p63s
  intKeyOk b := let f := f64 b
    !(f.isNaN || f.isInf) && f == truncF f && !(f > p63 || f < -p63)
  uintKeyOk b := let f := f64 b
    !(f.isNaN || f.isInf) && f == truncF f && !(f < 0 || f > p64)
  fitsF32 b := let f := f64 b
    !(f > maxF32 || f < -maxF32)

def now : Int := 1700000000000000

def hex16 (n : Nat) : String :=
  String.ofList ((List.range 16).map fun i => hexDigit ((n / 16 ^ (15 - i)) % 16))

def joinWith (sep : String) (xs : List String) : String := sep.intercalate xs

def bits (bs : List Bool) : String := String.ofList (bs.map fun b => if b then '1' else '0')

def colStr (c : ColRec) : String :=
  let v := match c.valid with
    | none => "-"
    | some bs => bits bs
  let (t, vals) := match c.data with
    | .i64 vs => ("i", joinWith "," (vs.map toString))
    | .f64 vs => ("f", joinWith "," (vs.map hex16))
    | .str vs => ("s", joinWith "," (vs.map hex))
    | .bool vs => ("b", bits vs)
  hex c.name ++ ":" ++ t ++ ":" ++ vals ++ ":" ++ v

def bytesLt : Bytes → Bytes → Bool
  | [], [] => false
  | [], _ :: _ => true
  | _ :: _, [] => false
  | a :: as, b :: bs => if a < b then true else if b < a then false else bytesLt as bs

def insertCol (c : ColRec) : List ColRec → List ColRec
  | [] => [c]
  | d :: ds => if bytesLt c.name d.name then c :: d :: ds else d :: insertCol c ds

def sortCols (cs : List ColRec) : List ColRec := cs.foldr insertCol []

def recStr (r : TypedRec) : String :=
  "{m=" ++ hex r.meas ++ " n=" ++ toString r.n ++ " " ++
    joinWith ";" ((sortCols r.cols).map colStr) ++ "}"

def itemStr : Item → String
  | .col r => "C" ++ recStr r
  | .colReject m => "X(" ++ hex m ++ ")"
  | .row m => "R(" ++ hex m ++ ")"
  | .nested => "nested"

def outcomeStr : Outcome → String
  | .ok its => "ok[" ++ joinWith " " (its.map itemStr) ++ "]"
  | .error .unmarshal => "E:unmarshal"
  | .error .unmarshalPanic => "E:unmarshal"   -- see canonPanic in go/harness/c02/main.go
  | .error .unsupported => "E:unsupported"
  | .error .payload => "E:payload"

def step (s : Unit) (fs : List String) : Unit × String :=
  match fs with
  | ["dec", h] =>
    match unhex h with
    | some b =>
      let t := match typedPath ieee sanitizeUTF8 now b with
        | some r => "hit" ++ recStr r
        | none => "miss"
      (s, "T=" ++ t ++ " G=" ++ outcomeStr (genericPath ieee sanitizeUTF8 now b))
    | none => (s, "bad-op")
  | ["wal", h] =>
    -- WAL record of the write, issued by the harness for typed hits only
    match unhex h with
    | some b =>
      let f : WalRec → String
        | .raw p => "raw:" ++ hex p
        | .rows => "rows"
      match typedPath ieee sanitizeUTF8 now b with
      | some _ => (s, "on=" ++ f (walTyped b) ++ " off=" ++ f (walGeneric b))
      | none => (s, "miss")
    | none => (s, "bad-op")
  | _ => (s, "bad-op")

end Arc.C02.Drive

def main : IO Unit := Arc.Proto.run Arc.C02.Drive.step ()
