import Arc.Base.Proto
import Arc.Model.C12
/-! Model driver for C12 (reads ops on stdin, prints one line per op).

    new <chunks> <sibHot 0|1> <sibCold 0|1>   fresh file in hot, registered hot        -> ok
    mig <oracle>      MigrateTier(hot, cold)                       -> mig=<migrated>/<errors>|mig=crash  <state>
    rec <oracle>      ReconcileOrphanedFiles                       -> rec=<found>/<deleted>/<errors>|rec=crash  <state>
    scan <oracle>     ScanAndRegisterFiles                         -> scan=ok|scan=crash  <state>
    cycle <oracle>    RunMigrationCycle                            -> cycle=ok|cycle=crash  <state>
    age               > 48 h pass (migrated_at leaves the reconcile window)      -> ok <state>
    tick <sec>        virtual time passes                                        -> ok
    query             a query in the RUNNING process (30 s tier cache)            -> globs=<tiers> vis=<n>
    addmig <k> <older|newer>  k more files of the measurement ingested + migrated cleanly (earlier/later than F) -> ok <state>
    obs               what is on disk / in SQLite / what a query returns -> <state> globs=<tiers> vis=<n>

  oracle: string over o(k) f(ail) c(rash) r(source read of the copy fails), "-" = empty.  -/
open Arc.Proto Arc.C12

structure DS where
  n : Nat := 1
  w : World := { f := Arc.C12.init, sibHot := false, sibCold := false }

def parseOracle (s : String) : Option (List Outcome) :=
  if s == "-" then some [] else
  s.toList.mapM fun c =>
    if c == 'o' then some Outcome.ok else if c == 'f' then some Outcome.fail
    else if c == 'c' then some Outcome.crash else if c == 'r' then some Outcome.srcfail else none

def b01 (b : Bool) : String := if b then "1" else "0"
def tierStr : Tier → String | .hot => "hot" | .cold => "cold"

def stStr (s : FileSt) : String :=
  let p := match s.part with | none => "-" | some k => toString k
  s!"h={b01 s.hot} c={b01 s.cold} p={p} t={tierStr s.tier} pend={s.pend} r={b01 s.recent}"

def globStr (g : List Tier) : String := if g.isEmpty then "-" else ",".intercalate (g.map tierStr)

def stepC12 (d : DS) (fs : List String) : DS × String :=
  match fs with
  | ["new", n, sh, sc] =>
    match nat? n with
    | some n => ({ n := n, w := { f := Arc.C12.init, sibHot := sh == "1", sibCold := sc == "1" } }, "ok")
    | none => (d, "bad-op")
  | ["mig", o] =>
    match parseOracle o with
    | some orc =>
      let r := migOp d.n d.w.f orc
      let res := match r.2 with
        | none => "0/0" | some .ok => "1/0" | some .err => "0/1" | some .crash => "crash"
      ({ d with w := wMig d.n d.w orc }, s!"mig={res} {stStr r.1.st}")
    | none => (d, "bad-op")
  | ["rec", o] =>
    match parseOracle o with
    | some orc =>
      let r := recOp d.w.f orc
      let res := if r.2.crashed then "crash" else s!"{r.2.found}/{r.2.deleted}/{r.2.errors}"
      ({ d with w := wRec d.w orc }, s!"rec={res} {stStr r.1.st}")
    | none => (d, "bad-op")
  | ["scan", o] =>
    match parseOracle o with
    | some orc =>
      let r := scanOp d.w.f orc
      let res := if r.2 == .crashed then "crash" else "ok"
      ({ d with w := wScan d.w orc }, s!"scan={res} {stStr r.1.st}")
    | none => (d, "bad-op")
  | ["cycle", o] =>
    match parseOracle o with
    | some orc =>
      let r := wCycle d.n d.w orc
      let res := if r.2 then "crash" else "ok"
      ({ d with w := r.1 }, s!"cycle={res} {stStr r.1.f}")
    | none => (d, "bad-op")
  | ["age"] => ({ d with w := wAge d.w }, s!"ok {stStr (wAge d.w).f}")
  | ["tick", k] =>
    match nat? k with
    | some k => ({ d with w := wTick d.w k }, "ok")
    | none => (d, "bad-op")
  | ["addmig", k, pos] =>
    match nat? k with
    | some k =>
      if pos == "older" || pos == "newer" then ({ d with w := wAddMig d.w k }, s!"ok {stStr d.w.f}")
      else (d, "bad-op")
    | none => (d, "bad-op")
  | ["query"] =>
    let r := wQuery d.w
    ({ d with w := r.1 }, s!"globs={globStr r.2} vis={warmVisible d.w}")
  | ["obs"] =>
    let g := globbed (actualTiers d.w.sibHot d.w.sibCold d.w.f)
    (d, s!"{stStr d.w.f} globs={globStr g} vis={visibleCopies d.w.sibHot d.w.sibCold d.w.f}")
  | _ => (d, "bad-op")

def main : IO Unit := Arc.Proto.run stepC12 {}
