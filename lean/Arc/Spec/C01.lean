import Arc.Model.C01
/-
C01 — specification side: what a line-protocol point IS (independent of arc's parser), how it is
written on the wire following the InfluxDB escaping rules, and what it denotes.

Escaping rules (InfluxDB line protocol):
  measurement            : `,` and ` ` are written `\,` `\ `
  tag key, tag value,
  field key              : `,` `=` ` ` are written `\,` `\=` `\ `
  string field value     : enclosed in `"`, inside it `"` and `\` are written `\"` `\\`
  numbers/booleans       : written bare; integers end in `i`, unsigned in `u`
-/
namespace Arc.C01

/-- escape every byte of `s` that is in `set` with a preceding backslash -/
def escName (set : UInt8 → Bool) : Bytes → Bytes
  | [] => []
  | b :: r => if set b then cBS :: b :: escName set r else b :: escName set r

def measSet (b : UInt8) : Bool := b == cCM || b == cSP
def tagSet (b : UInt8) : Bool := b == cCM || b == cEQ || b == cSP
def strSet (b : UInt8) : Bool := b == cDQ || b == cBS

/-- the ten boolean spellings of line protocol -/
def boolText (v : Bool) (k : Fin 5) : Bytes :=
  match v, k.val with
  | true, 0 => [116] | true, 1 => [84] | true, 2 => [116, 114, 117, 101] | true, 3 => [84, 114, 117, 101]
  | true, _ => [84, 82, 85, 69]
  | false, 0 => [102] | false, 1 => [70] | false, 2 => [102, 97, 108, 115, 101] | false, 3 => [70, 97, 108, 115, 101]
  | false, _ => [70, 65, 76, 83, 69]

inductive FieldVal
  | float (lit : Bytes)                 -- the decimal literal exactly as written
  | int (neg : Bool) (digits : Bytes)   -- optional '-' and decimal digits (suffix `i` added by render)
  | uint (digits : Bytes)
  | str (s : Bytes)
  | bool (v : Bool) (spelling : Fin 5)
deriving Repr

structure TsLit where
  neg : Bool
  digits : Bytes
deriving Repr

structure Point where
  meas : Bytes
  tags : List (Bytes × Bytes)
  fields : List (Bytes × FieldVal)
  ts : Option TsLit
deriving Repr

/-- legal spacing around a point: leading / trailing ASCII blanks (`\r` of CRLF included) and
`sp+1` spaces between the three sections -/
structure Spacing where
  lead : Bytes := []
  sp1 : Nat := 0
  sp2 : Nat := 0
  trail : Bytes := []

def signText (neg : Bool) : Bytes := if neg then [45] else []

def renderVal : FieldVal → Bytes
  | .float lit => lit
  | .int neg ds => signText neg ++ ds ++ [105]
  | .uint ds => ds ++ [117]
  | .str s => cDQ :: (escName strSet s ++ [cDQ])
  | .bool v k => boolText v k

def renderTag (t : Bytes × Bytes) : Bytes := escName tagSet t.1 ++ cEQ :: escName tagSet t.2

def renderTags : List (Bytes × Bytes) → Bytes
  | [] => []
  | t :: ts => cCM :: (renderTag t ++ renderTags ts)

def renderMT (p : Point) : Bytes := escName measSet p.meas ++ renderTags p.tags

def renderField (f : Bytes × FieldVal) : Bytes := escName tagSet f.1 ++ cEQ :: renderVal f.2

/-- fields joined by `,` (defined for the tail so that the induction is on one list) -/
def renderMore : List (Bytes × FieldVal) → Bytes
  | [] => []
  | f :: fs => cCM :: (renderField f ++ renderMore fs)

def renderFields : List (Bytes × FieldVal) → Bytes
  | [] => []
  | f :: fs => renderField f ++ renderMore fs

def spaces (n : Nat) : Bytes := List.replicate (n + 1) cSP

def tsText (t : TsLit) : Bytes := signText t.neg ++ t.digits

def renderTs (sp : Spacing) : Option TsLit → Bytes
  | none => []
  | some t => spaces sp.sp2 ++ tsText t

def renderCore (sp : Spacing) (p : Point) : Bytes :=
  renderMT p ++ (spaces sp.sp1 ++ (renderFields p.fields ++ renderTs sp p.ts))

def render (sp : Spacing) (p : Point) : Bytes := sp.lead ++ (renderCore sp p ++ sp.trail)

/-! ## denotation -/

/-- Horner value of decimal digits (the meaning of decimal notation) -/
def digitsNat : Bytes → Nat := fun ds => ds.foldl (fun acc b => acc * 10 + (b.toNat - 48)) 0

def signed (neg : Bool) (n : Nat) : Int := if neg then -(n : Int) else (n : Int)

def denoteVal (pf : Bytes → Option UInt64) : FieldVal → GoVal
  | .float lit => .f64 ((pf lit).getD 0)
  | .int neg ds => .i64 (signed neg (digitsNat ds))
  | .uint ds => .u64 (digitsNat ds)
  | .str s => .str s
  | .bool v _ => .bool v

/-- the mathematically exact microsecond value, when it is representable.
ns: Go's truncating division (see `C01_ts_*` for what that means for negative values). -/
def denoteTs (now : Int) (p : Prec) : Option TsLit → Int
  | none => now
  | some t => convTs now p (signed t.neg (digitsNat t.digits))

def denote (pf : Bytes → Option UInt64) (now : Int) (pr : Prec) (p : Point) : Record :=
  { meas := p.meas, tags := p.tags, fields := p.fields.map (fun f => (f.1, denoteVal pf f.2)),
    ts := denoteTs now pr p.ts }

/-! ## well-formedness (= the generator's exclusions) -/

def allDigits (ds : Bytes) : Bool := !ds.isEmpty && ds.all isDigit

/-- bytes a decimal float literal may consist of: digits `+ - . e E` -/
def floatChar (b : UInt8) : Bool := isDigit b || b == 43 || b == 45 || b == 46 || b == 101 || b == 69

def noNL (s : Bytes) : Bool := !s.contains cNL

def WFVal (pf : Bytes → Option UInt64) : FieldVal → Bool
  | .float lit => !lit.isEmpty && lit.all floatChar && (pf lit).isSome
  | .int neg ds => allDigits ds && (if neg then decide (digitsNat ds ≤ 9223372036854775808)
                                    else decide (digitsNat ds < 9223372036854775808))
  | .uint ds => allDigits ds && decide (digitsNat ds < 18446744073709551616)
  | .str s => noNL s && validUTF8 s
  | .bool _ _ => true

/-- a name (measurement, tag key/value, field key): non-empty, no newline.
The three conjuncts after that are the carve-outs of the confirmed / reported deviations:
no `"` (finding quote-in-name), no `\` (line protocol has no escape for it outside string values). -/
def nameOK (s : Bytes) : Bool := !s.isEmpty && noNL s && !s.contains cDQ && !s.contains cBS

/-- additionally for keys: no `=` (finding key-escaped-equals) — unless the current source locates the
key/value separator escape-aware (regenerated fact), in which case the carve-out is void -/
def keyOK (s : Bytes) : Bool := nameOK s && (Arc.Generated.C01.kvCutEscapeAware || !s.contains cEQ)

def reserved (s : Bytes) : Bool := s == timeCol

def WFTs : Option TsLit → Bool
  | none => true
  | some t => allDigits t.digits &&
      (if t.neg then decide (digitsNat t.digits ≤ 9223372036854775808)
       else decide (digitsNat t.digits < 9223372036854775808))

def blank (b : UInt8) : Bool := b == 9 || b == 11 || b == 12 || b == 13 || b == 32

/-- the measurement must not start with a byte sequence that reads as a comment marker or that
Go's `bytes.TrimSpace` strips (ASCII blanks other than the escaped space, Unicode space runes) -/
def measHeadOK (m : Bytes) : Bool :=
  match m with
  | [] => false
  | c :: _ => c != cHash && spacePrefixLen (escName measSet m) == 0

def WF (pf : Bytes → Option UInt64) (p : Point) : Bool :=
  nameOK p.meas && measHeadOK p.meas &&
  p.tags.all (fun t => keyOK t.1 && nameOK t.2 && !reserved t.1) &&
  p.fields.all (fun f => keyOK f.1 && WFVal pf f.2 && !reserved f.1) &&
  !p.fields.isEmpty &&
  decide (p.tags.map (·.1)).Nodup && decide (p.fields.map (·.1)).Nodup &&
  p.fields.all (fun f => !(p.tags.map (·.1)).contains f.1) &&
  WFTs p.ts

def WFSpacing (sp : Spacing) : Bool := sp.lead.all blank && sp.trail.all blank

end Arc.C01
