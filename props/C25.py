import json


def _redirect_dial(src):
    """FetchClient.Fetch dials with security.Dial("tcp", …); the harness needs an in-memory
    connection to its scripted peer.  One call expression is redirected to the verif hook
    (go/hooks/c25_filereplication: verifDial falls back to security.Dial when no hook is set);
    every other line of Fetch is the unmodified source."""
    old = 'security.Dial("tcp", peerAddr, f.DialTimeout, f.TLSConfig)'
    if src.count(old) != 1:
        raise ValueError("FetchClient.Fetch no longer dials with " + old)
    return src.replace(old, 'verifDial("tcp", peerAddr, f.DialTimeout, f.TLSConfig)')


SPEC = dict(
    id="C25",
    technique="Lean 4 invariant proofs (generic induction principle StepOK through pullOnce / peer loop / retry loop / call history) over an executable model of processEntry + pullOnce + FetchClient.Fetch + LocalBackend{StatFile,ReadToAt,WriteReader,AppendReader,Delete}, parameterised by five code facts regenerated from the source (resume boundary `partial >= SizeBytes` in tryResumeFromPartial, StatFile .part fallback, Delete removes .part, presence check needs the final file, WriteReader renames only after the verified-EOF signal); differential correspondence of the real Puller + real FetchClient + real LocalBackend against the model after every attempt",
    level_text=(
        "Lean 4, for ALL fault histories (any number of processEntry calls, any number of attempts, any number of candidate peers per attempt, "
        "every outcome of the alphabet dial/err-ack/not-on-peer/bad-offset/wrong-size/wrong-hash/truncate@i/corrupt@i/ok, any file bytes, abstract digest H): "
        "C25_final_correct (+_within, +_exact under the hypothesis CollisionFree H) — after every attempt the final path only holds bytes with the manifest digest and size — and C25_final_correct_during — the same at the point inside an attempt where the write goroutine has finished and before any cleanup Delete — proved for every combination of the presence/cleanup facts under the step-order obligation promoteAfterVerdict (WriteReader renames only after io.Copy on the caller's un-limited reader returned nil), which C25_promote_after_verdict discharges by `decide` on the fact regenerated from LocalBackend.WriteReader (C25_early_promote_witness: without it a full-length corrupted transfer is visible at the final path before the checksum verdict). "
        "C25_counts / C25_converges (counted skipped-local/pulled => complete at the final path; after any history one call with a healthy first peer ends complete) are proved for every fact combination that has a sound presence check or a Delete that removes .part (the latter for non-empty files and no full-size staging file at the start); C25_counters_status ties 'counted' to the two counters. "
        "For the CURRENT source (facts statPartFallback=1, deleteRemovesPart=0, presenceNeedsFinal=0, regenerated on every run; C25_generated) both clauses are REFUTED: C25_counts_witness / C25_converges_witness (corrupt byte 0, then a healthy peer) and the same replay on the real code; what is proved instead is C25_counts_partial / C25_converges_partial under the decidable carve-out 'no corrupted transfer in the history, non-empty file, initial staging file a proper prefix', plus the tight step statement C25_counts_step (wrong only when the presence check sees a full-size .part with no final file). "
        "The model is diffed after every attempt (bytes at final and .part, six counters, resume offsets, what every cleanup Delete found at the final path, status); a wrapping backend additionally samples the final path DURING attempts (before StatFile/ReadToAt/Delete, right after WriteReader/AppendReader return) for the transient monitor against the real Puller.processEntry + real FetchClient.Fetch over an in-memory connection to a scripted peer + real LocalBackend in a temp dir: exhaustively over all outcome sequences for files of 0..3 bytes (<=2 attempts quick; <=3 attempts from every initial final/.part state and all 4-attempt sequences thorough), plus random multi-peer / multi-call histories incl. 40 KB files, a quarter of them through the real worker pool + RunCatchUp + FullyCaughtUp."
    ),
    level_note="the active regime (repaired vs round-1 facts) is printed in evidence notes.regime",
    factgen=True,
    hooks={"internal/cluster/filereplication": "go/hooks/c25_filereplication"},
    rewrite=[("internal/cluster/filereplication/fetch_client.go", _redirect_dial)],
    harnesses=[dict(name="c25", timeout=dict(quick=600, thorough=3000))],
    exhaustive=True,
    trusted_base=[
        "SHA-256 is modelled as an arbitrary function H; incremental hashing (prefix hasher + tail) equals H(prefix ++ tail); collision-freeness is a hypothesis of C25_final_exact / the 'exact bytes' conjunct of C25_converges only",
        "each os.OpenFile/Rename/Remove/Stat of LocalBackend is atomic and the replica directory is touched only by this puller (no crash between steps, no concurrent writer of the same path — the puller's inflight set serialises a path)",
        "io.Pipe is synchronous: every byte Fetch wrote to dst has reached the staging file when pullOnce's wg.Wait() returns (validated by the per-attempt diff of .part contents)",
        "the scripted peer (go/harness/c25) realises the fault alphabet over the real wire protocol (protocol.SendMessage/ReceiveMessage framing + raw body); the dial call of FetchClient.Fetch is redirected by a one-expression overlay rewrite",
        "shape expectations of go/factgen/cmd/c25 (resume only on attempt > 1, ReadToAt .part fallback, WriteReader truncate+rename-after-clean-EOF, AppendReader rename guarded by written == appendSize, cleanup calls after checksum/bad-offset, digest comparison last in Fetch)",
    ],
    assumptions=[
        "manifest entry is honest: SizeBytes = len(bytes) and SHA256 = digest(bytes) of the file the origin registered",
        "'faults stop' = the entry is processed again (FSM callback / catch-up re-enqueue) and the first candidate peer serves it correctly",
        "S3/Azure backends (no AppendReader, ErrResumeNotSupported) are outside the model; only LocalBackend is modelled",
    ],
)


def extra_stage(ctx):
    if not ctx.get("facts"):
        return
    f = json.load(open(ctx["facts"]))
    sound = f["presence_needs_final"] or not f["stat_part_fallback"]
    if sound:
        regime = "repaired (sound presence check): C25_counts / C25_converges apply to the current source with no side condition"
    elif f["delete_removes_part"]:
        regime = "repaired (Delete removes .part): C25_counts / C25_converges apply to the current source for non-empty files and replicas without a full-size staging file at the start"
    else:
        regime = "round-1 facts: C25_counts / C25_converges are refuted by the witnesses; only the _partial theorems and C25_final_correct apply to the current source"
    if f.get("resume_full_part", False):
        regime += "; STEP-ORDER OBLIGATION BROKEN: tryResumeFromPartial resumes from a local file of full manifest size (boundary `>` instead of `>=`) — C25_resume_boundary / C25_order_ok fail (C25_resume_boundary_witness: fault-free retries are burnt on bad_offset)"
    if not f.get("promote_after_verdict", True):
        regime += "; STEP-ORDER OBLIGATION BROKEN: WriteReader no longer copies the caller's un-limited reader (copy source: %s) — C25_promote_after_verdict fails, every C25_final_correct* theorem loses its hypothesis" % f.get("write_reader_copy_source")
    ctx["notes"]["regime"] = regime
    ctx["notes"]["facts"] = f
