SPEC = dict(
    id="C19",
    level_text="WIP",
    technique="WIP",
    factgen=True,
    hooks={"internal/api": "go/hooks/c19_api"},
    harnesses=[dict(name="c19", tags="verif duckdb_arrow", timeout=dict(quick=900, thorough=3000))],
    trusted_base=[],
    assumptions=[],
)
