SPEC = dict(
    id="C08",
    level_text=(
        "Lean 4 theorems over a byte-level executable model. Confinement: C08_confined — for ALL key byte strings "
        "(any '..', NUL, backslash, invalid UTF-8, length) and every absolute cleaned base /b1/../bn, a key that "
        "LocalBackend.validatePath accepts resolves to /b1/../bn/e1/../ek with every ei a real element (non-empty, "
        "not '.', not '..', no separator); C08_confined_str is the byte-prefix form; the proof goes through the Rel "
        "check and therefore holds although sanitizePath's NUL-after-'..' order re-creates '..' (C08_nul_quirk_witness); "
        "manifest paths accepted by ValidateManifestPath and edge-sync keys (NamespacedPath / staging key under "
        "validateSpokeID+validateSyncPath) are instances (C08_manifest_*, C08_edgesync_*). Atomicity: Write, WriteReader, "
        "AppendReader are op sequences instantiated from the REGENERATED call order and path roles of the current source; "
        "crash = any prefix, any cutting of the data into write(2) pieces, any previous content of final/.part: "
        "C08_atomic_write / _write_reader / _append — the final path is unchanged or holds the complete intended content; "
        "C08_part_ne_final, C08_staging_ops_spare_final, C08_error_paths_spare_final / C08_error_cleanup_inert cover the "
        "staging name and the error/defer paths. C08_staging_confined (full, no carve-out) + C08_file_key_below_root: keys the write procedures accept (validateFilePath, tied by C08_root_guard_tied) and their .part staging names are STRICTLY below the root; C08_root_key_witness records the pre-fix escape (key resolving to the "
        "root itself staged at <root>.part, a sibling of the root; fixed by commit 0cc3d06). "
        "The model (incl. its Clean/Join/Rel re-implementation) is diffed against the real functions on an "
        "exhaustive small-alphabet grid + >=100k adversarial keys, and the real write procedures are killed by strace "
        "injection at every openat/write/close/rename/unlink/mkdir syscall index; every surviving state must be a crash "
        "state of the model."
    ),
    technique="Lean 4 proofs (segment-stack model of POSIX Clean/Join/Rel; FS op sequences with crash = prefix) + regenerated call order/roles + differential correspondence incl. strace kill injection",
    factgen=True,
    hooks={"internal/storage": "go/hooks/c08_storage", "internal/edgesync": "go/hooks/c08_edgesync"},
    harnesses=[dict(name="c08", timeout=dict(quick=900, thorough=3000))],
    trusted_base=[
        "path/filepath.Clean/Join/Abs/Rel (Go 1.26, unix) are re-implemented in Lean as a segment-stack machine; the re-implementation is validated by the differential harness (ops clean/join/rel), not proved against the Go library source",
        "OS semantics: rename(2) replaces the destination atomically; a killed process leaves exactly the effects of the system calls it completed (process-kill crash model, NOT power loss: LocalBackend never fsyncs before rename); os.CreateTemp picks a name that does not exist (O_EXCL) and differs from the final name",
        "file system model has regular files only: directories, symlinks planted inside the root, hard links, permissions and concurrent writers to the same key are outside the model",
        "factgen's classification of path roles (dir/staging/final) follows variable assignments syntactically (validatePath -> final, partPath/CreateTemp -> staging, filepath.Dir -> dir) and of error blocks by `if` conditions mentioning err",
        "strace syscall injection delivers SIGKILL on syscall entry (the N-th call does not run); only the main thread is traced, the child pins its work to it (runtime.LockOSThread, GOMAXPROCS=1)",
    ],
    assumptions=[
        "b.basePath is absolute and cleaned (NewLocalBackend stores filepath.Abs(basePath))",
        "'intended content' of AppendReader = bytes already staged in <final>.part followed by the appended bytes; whether that equals the source file is the resume protocol's concern (C25)",
        "StatFile/ReadToAt deliberately fall back to <final>.part when the final file is absent (resume support); the atomicity clause is about the final PATH as seen by Read/ReadTo/Exists/List",
    ],
)
