SPEC = dict(
    id="C28",
    level_text=(
        "Lean 4 theorems over an executable model of slidingWindowCounter / quotaTracker / Manager "
        "(all operation histories, all integer times, limit updates, forward AND backward clock jumps; "
        "invariants by induction). PROVED at full strength: C28_quota_hour / C28_quota_day — hourly / daily quota "
        "never exceeded within a clock hour / UTC day (holds since /repo 9f59e62 made maybeReset use "
        "!now.Before(resetAt); tied by C28_reset_tied); C28_reject_free, C28_order — a rate-limit rejection returns "
        "before CheckQuota and leaves the tracker untouched; C28_update_next_rate / _quota / C28_update_applies — "
        "limit changes decide the very next request; C28_tokens_independent. PROVED in weakened form: "
        "C28_window_slots / C28_window_partial — at most `limit` admissions in every window of length (n-1)*d "
        "(59 s / 59 min for the two call sites), limit = the one in force at the admission, and C28_window_2x — at "
        "most 2*limit per configured window under a constant limit. REFUTED as stated (Lean witness + replay on "
        "the real code, known finding): 'any window of the configured length' (C28_window_full_witness: 2x limit "
        "within 59 s + 1 ns; keys window-exceeded:*). Source ties by `decide` over regenerated facts: (window, "
        "slots) of both newSlidingWindowCounter call sites, constructor defaults, maybeReset periods and comparison, "
        "order of CheckRateLimit/CheckQuota in executeQuery. VALIDATED only (differential correspondence, full "
        "internal state diffed after every op): that the model computes what the real limiter/tracker/manager "
        "compute (incl. the ring-buffer layout, RetryAfterSec, GetTokenUsage, DeletePolicy, concurrent bursts at a "
        "frozen clock)."
    ),
    level_note="proof (partial): the rate-limit window clause holds only in the weakened form named above (known finding window-exceeded:*); per-limiter theorems are lifted to the manager by simple composition lemmas plus the correspondence, not by a manager-level trace theorem",
    technique="Lean 4 invariant proofs (slot-coverage invariant for the ring, reset invariant for the hour/day counters) over an executable model; regenerated call-site/order facts; differential correspondence of the real governance package under a virtual clock with property monitors",
    factgen=True,
    clockify=[
        "internal/governance/sliding_window.go",
        "internal/governance/quota_tracker.go",
        "internal/governance/manager.go",
    ],
    hooks={"internal/governance": "go/hooks/c28_governance", "internal/api": "go/hooks/c28_api",
           "internal/license": "go/hooks/c28_license"},
    harnesses=[
        dict(name="c28", timeout=dict(quick=300, thorough=1800)),
        # handler level: the real QueryHandler.executeQuery (fiber app, injected token info, governance-enabled
        # license) in front of the real Manager; same ops / same model driver as the manager ops of c28
        dict(name="c28h", tags="verif duckdb_arrow", driver="drive_c28", timeout=dict(quick=600, thorough=1800)),
    ],
    trusted_base=[
        "sync.Mutex makes each Allow / AllowQuery / UpdateLimit(s) call one atomic step, so concurrent callers reduce to sequences (exercised by concurrent bursts at a frozen clock, whose aggregate outcome is schedule independent)",
        "the process clock is the virtual clock injected by the overlay's clockify rewrite of internal/governance/{sliding_window,quota_tracker,manager}.go; time.Time.Truncate is modelled as floor to a multiple of d since Go's zero time",
        "the Go ring buffer (slots, currentSlot) is represented in the model as the same counts ordered by age plus currentSlot; the physical layout is re-derived and diffed against the real array after every op",
        "harness c28 reproduces the governance block of executeQuery (CheckRateLimit, return on reject, CheckQuota); harness c28h runs the real QueryHandler.executeQuery over HTTP (fiber app.Test) with token info injected by a middleware and a license struct planted by a verif hook — the auth middleware and license verification are outside the model; every request carries an empty SQL string so admitted requests stop at request validation",
        "time differences stay within int64 nanoseconds (time.Duration saturation is not modelled)",
    ],
    assumptions=[
        "window / hour / day statements in clock readings assume a non-decreasing clock (arbitrary forward jumps); for clocks that also jump backwards the theorems are stated over the limiter's effective time (largest reading seen so far)",
        "a limiter/tracker lifetime ends at DeletePolicy (which drops the token's counters: usage before a delete is forgotten by design of the code — modelled, not flagged)",
        "admissions made while a limit is 0 (unlimited) are not charged against a limit introduced later",
    ],
)
