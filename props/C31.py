SPEC = dict(
    id="C31",
    level_text=(
        "Lean 4 theorems over an executable model of internal/api/import_inprocess.go + the hour-partitioned flush of "
        "internal/ingest/arrow_writer.go, whose conversion tables (unit -> multiply/divide/identity, auto-detection thresholds, "
        "MinInt64 clamp) and error policy (what ends every error branch; one buffer write after all conversion-error returns) are "
        "REGENERATED from the current source by factgen. PROVED for all inputs: C31_time_auto (integer auto-detection exact and "
        "never wraps over the whole int64 range), C31_time_int_partial / C31_time_arrow_partial + C31_time_int_exact_iff (explicit "
        "units exact IFF the product fits int64; epoch_ns = truncation toward zero, error < 1 us), C31_parse_int_exact + "
        "C31_infer_lossless_int/_str/_bool (int, string and bool columns are lossless up to the documented normal form canonInt: "
        "no '+', no leading zeros, no negative zero; bool spellings 1/0/case-folded true/false; empty cell = null), "
        "C31_infer_float_cells + C31_infer_lossless_float_partial (float columns: cells before the first non-integer are float64(int64), "
        "exact for |n| <= 2^53), C31_rows (accepted => exactly one row per data record, header and exactly skip_rows records excluded), "
        "C31_rows_once / C31_rows_hour (every buffered row is in exactly one hour file: count equality = multiset equality), "
        "C31_all_or_nothing(+_parquet) + C31_bad_time_rejects + C31_policy_tied (any input-caused failure stores nothing). "
        "After the /repo repairs 4d7fee9, 8033d9e, 273e2e1, d44fdfa, 306d476, 83c5101 the value clause holds at FULL strength for the "
        "modelled classes: C31_infer_lossless_float (a column is float only if every integer cell is exactly a float64), "
        "C31_no_cell_dropped, C31_no_column_dropped, C31_uint64_exact, tied to the source by C31_repairs_tied (regenerated guard facts); the "
        "former witnesses are kept as HISTORY theorems (C31_infer_big_int_stays_text, C31_long_row_rejected, C31_underscore_rejected, "
        "C31_uint64_rejected). STILL FALSE of the current tree, each with a Lean witness / explicit carve-out and an armed monitor: silent "
        "int64 wrap of epoch_s/epoch_ms/TIMESTAMP(ms) times (C31_time_int_witness, C31_time_arrow_witness; carve-out: product fits int64); "
        "partial import left by a storage write fault in a multi-hour flush (C31_flush_fault_witness; outside the quantifier 'inputs'); and, "
        "outside the model, CRLF inside quoted CSV fields (encoding/csv) and DECIMAL128 -> float64. "
        "VALIDATED, not proved: the model itself is diffed against the real functions (function level: intTimeToMicros, "
        "autoIntEpochToMicros, arrowTimestampToMicros, inferAndConvertColumn, isBoolLiteral, stringsToTimeMicros, validateImportHeader, "
        "strconv.ParseInt, float64(int64), ParseFloat on integer literals) and against the REAL endpoints POST /api/v1/import/{csv,parquet} "
        "(stored Parquet files read back). PARAMETERS outside the model: CSV tokenisation (encoding/csv: the model starts from the record "
        "list the reader yields), Parquet decoding (arrow-go: the model starts from the decoded typed columns), strconv.ParseFloat on "
        "non-integer literals, float arithmetic of fractional epochs, time.Parse layouts, Decimal128.ToFloat64 - their results enter the "
        "model as per-cell oracles; the end-to-end monitors check them against the generator's ground truth instead."
    ),
    level_note="proof (partial): float text conversion, CSV tokenisation and Parquet decoding are parameters; the time clause (explicit units) and the all-or-nothing clause (storage faults) hold only under stated carve-outs (witness theorems + monitors)",
    technique="Lean 4 proofs (omega over wrap64, digit-string induction, counting) over an executable model; regenerated conversion tables + error policy; differential correspondence at function level and through the real import endpoints with stored-row read-back",
    factgen=True,
    hooks={"internal/api": "go/hooks/c31_api"},
    harnesses=[dict(name="c31", tags="verif duckdb_arrow", timeout=dict(quick=900, thorough=3000))],
    trusted_base=[
        "encoding/csv tokenisation (FieldsPerRecord=-1, LazyQuotes) is a parameter: the model is given the record list the reader yields for the uploaded bytes",
        "arrow-go Parquet decoding and the arrow-go Parquet writer/reader used to store and read back rows",
        "strconv.ParseFloat on non-integer literals, float64 multiplication/truncation of fractional epochs, time.Parse, Decimal128.ToFloat64: per-cell oracles computed by the real library calls",
        "the harness's independent judges (big.Int / big.Rat exact arithmetic) that decide whether a stored value is a lossless image of a cell",
        "fiber app.Test multipart upload stands for a real HTTP upload; admin auth is disabled (authManager nil) in the harness",
    ],
    assumptions=[
        "no concurrent writer to the same (database, measurement) buffer during an import and import size < ingest.max_buffer_size (otherwise the flush is asynchronous; exercised separately by the async cases)",
        "all-or-nothing is proved for input-caused failures; storage write faults are outside the property's quantifier and are reported as a separate finding class",
    ],
)
