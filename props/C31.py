SPEC = dict(
    id="C31",
    level_text="(under construction)",
    technique="Lean 4 proof over an executable model of the CSV/Parquet import conversions; regenerated arithmetic tables and error policy; differential correspondence at function level and through the real import endpoints",
    factgen=True,
    hooks={"internal/api": "go/hooks/c31_api"},
    harnesses=[dict(name="c31", tags="verif duckdb_arrow", timeout=dict(quick=900, thorough=3000))],
    trusted_base=[],
    assumptions=[],
)
