SPEC = dict(
    id="C26",
    level_text="Theorem C26_no_replay (Lean 4, all integer times/offsets, any prior and interleaved traffic): a message accepted once is never accepted again provided ttl >= (2*tol+1)s; C26_sites re-proves that side condition by `decide` over the (tolerance, ttl) pairs factgen extracts from every NewNonceCache call site of the current source; C26_window/C26_badmac_inert cover the rejection clauses; tightness witnesses show the condition cannot be weakened. The model is diffed against the real validators + NonceCache (function level), the real fiber cache-invalidate handler, Coordinator.handleForwardApply/handleReplicateSync over net.Pipe and the real coordinator lifecycle (NewCoordinator→Start→TCP) under a virtual clock, on an edge grid and random replay histories incl. replays whose MAC hex is re-spelled, plus a concurrency stage (8 simultaneous copies of one signed request: exactly one may be accepted).",
    technique="Lean 4 invariant proof (Remembers) over a model of NonceCache.Track + freshness; regenerated call-site constants; differential correspondence under a virtual clock",
    factgen=True,
    clockify=[
        "internal/cluster/security/nonce_cache.go",
        "internal/cluster/security/auth.go",
        "internal/cluster/security/edgesync_auth.go",
    ],
    hooks={"internal/cluster": "go/hooks/cluster_c26"},
    harnesses=[dict(name="c26"),
               dict(name="c26h", tags="verif duckdb_arrow", driver="drive_c26")],
    trusted_base=[
        "HMAC-SHA256 unforgeability is outside the model: a replay is a byte-for-byte copy carrying the original valid MAC (Msg.macOk)",
        "sync.Mutex makes each Track call one atomic step (interleavings of concurrent requests reduce to sequences)",
        "the receiver's clock is the virtual clock injected by the overlay's clockify rewrite of internal/cluster/security/*.go",
        "pairing of each NewNonceCache call site with the validators that feed it is a hand-written expectation in go/factgen/c26.go",
    ],
    assumptions=[
        "call sites construct the cache once and validate before Track (checked syntactically by factgen for the listed sites, exercised at function level by the harness)",
    ],
)
