def _rw_manager(src):
    """CompactPartition: route the fork/exec of the compaction child through the verif hook."""
    old = "result, err := RunJobInSubprocess(ctx, config, m.logger, extraEnv...)"
    if src.count(old) != 1:
        raise Exception("CompactPartition no longer contains exactly one `%s`" % old)
    return src.replace(old, "result, err := verifRunJob(ctx, config, m.logger, extraEnv...)")


def _rw_subprocess(src):
    """RunSubprocessJob: let the harness wrap the child's storage backend (crash injection)."""
    old = "backend, err := createStorageBackendFromConfig(config, logger)\n\tif err != nil {\n\t\treturn nil, fmt.Errorf(\"failed to create storage backend: %w\", err)\n\t}\n"
    if src.count(old) != 1:
        raise Exception("RunSubprocessJob no longer creates its backend with the expected statement")
    src = src.replace(old, old + "\tbackend = verifWrapBackend(backend)\n")
    old = 'db, err := sql.Open("duckdb", "")\n\tif err != nil {\n\t\treturn nil, fmt.Errorf("failed to open duckdb: %w", err)\n\t}\n\tdefer db.Close()\n'
    if src.count(old) != 1:
        raise Exception("RunSubprocessJob no longer opens/closes DuckDB with the expected statements")
    return src.replace(old, old.replace('sql.Open("duckdb", "")', 'verifOpenDuck()').replace('defer db.Close()', 'defer verifCloseDuck(db)')) + "\nvar _ = sql.ErrNoRows\n"


SPEC = dict(
    id="C09",
    level_text=("Lean 4 theorems over an executable model of one partition under the compaction cycle (storage = path -> (multiset of rows, "
                "metadata level, complete flag); manifests; the job program and the branches of manifest recovery are INTERPRETED from lists "
                "regenerated out of Job.Run / recoverManifest on every run, so reordering upload and input deletion changes the Lean term). "
                "C09_no_early_delete(+_recovery): for all states/inputs/positions, a job or recovery deletes an input only in a state holding the "
                "manifest and the complete output whose rows cover the input's (tags,time) keys. C09_full_partial: for ALL partitions whose "
                "metadata-carrying files declare one tag set, ALL histories of cycles with crashes and torn uploads at every storage mutation and "
                "kills before the first/after the last mutation, one later fault-free cycle leaves no manifest and the visible rows are a collapse "
                "of the original ones (sub-multiset, every key kept; exact multiset when no file carries dedup metadata). C09_full (in force since "
                "/repo a5dca86; consumes the regenerated fact retryConsultsManifests=true): the same for ALL kill positions, because CompactPartition "
                "now settles a failed job's manifest before compactFilesAdaptively retries the halves; C09_full_witness shows the fact is necessary "
                "(duplicates without it; the harness duplicate monitors stay live). C09_level_witness is the one input class on which the CURRENT tree "
                "still violates the property (known finding, reproduced on the real code): row loss when a job dedups at a coarser tag union than a "
                "legacy/compacted input needs; hence the carve-out UniformLevel. C09_dedup_key_is_union / C09_dedup_union consume the regenerated fact "
                "dedupKeyIsUnionOfInputTags (readTagColumnsFromParquetFiles accumulates over ALL inputs): the job's dedup key contains every input's declared "
                "tag set, so no row of a TAGGED input collapses under a key coarser than its own file declares (nested and non-nested tag sets). "
                "C09_manifest_drop_sites / C09_manifest_deleted_last: a manifest is dropped only when nothing depends on it — the upload-failure branch fires "
                "only on the storage write's own error (fact uploadErrorOnlyFromStorageWrite; graceful cancellation is a fault kind of the model and the harness), "
                "recovery ignores a manifest's age (fact staleManifestWarnOnly; harness advances a virtual clock over manifest.go / zero created_at), and a job "
                "deletes its manifest only with the complete output present and all inputs gone. C09_batches: SplitCandidateIntoBatches partitions the file "
                "list. DuckDB's dedup is the hypothesis DedupSpec (never an axiom); the model is diffed against the real Manager/Job/recovery "
                "in-process under crash/kill/torn-upload/recovery-error injection, rows compared by DuckDB scans."),
    technique="Lean 4 invariant proof over an executable model of the compaction cycle (job program and manifest recovery regenerated from Job.Run / recoverManifest), differential correspondence against the real Manager/Job with crash and kill injection",
    factgen=True,
    clockify=["internal/compaction/manifest.go"],
    hooks={"internal/compaction": "go/hooks/compaction_c09"},
    rewrite=[("internal/compaction/manager.go", _rw_manager),
             ("internal/compaction/subprocess.go", _rw_subprocess)],
    harnesses=[dict(name="c09", tags="verif duckdb_arrow", timeout=dict(quick=900, thorough=3000))],
    trusted_base=[
        "DuckDB: read_parquet(union_by_name) returns the multiset union of the files' rows, COPY writes exactly the selected rows, QUALIFY ROW_NUMBER()=1 keeps one row per key (hypothesis DedupSpec; validated on every harness job by scans)",
        "each storage.Backend mutation (Write, WriteReader, Delete) is atomic w.r.t. crashes (C08: temp file + rename); a non-atomic upload is covered separately by the torn-upload fault",
        "the in-process child (RunSubprocessJob called through the overlay hook instead of fork/exec, shared DuckDB instance) behaves like the `arc compact` child; a kill is the error exec reports for a SIGKILLed child (`signal: killed`)",
        "one partition at a time: jobs of a partition run sequentially in one goroutine and cycles do not overlap (cycleRunning CAS)",
        "the row abstraction (rid, key ids at 3 nested dedup levels) computed by the harness from the generated rows",
    ],
    assumptions=[
        "theorems: manifest-recovery deletes succeed (storage ERRORS are outside the property's quantifier; they are exercised by the harness only: recfail)",
        "theorems C09_full_*: all files that carry dedup metadata in a partition declare the same tag set (UniformLevel); the mixed case is finding 2",
        "hourly tier only (daily tier uses the same Manager/Job path)",
    ],
)
