import re


def _rw_cq_handler(src):
    """Fault points: top of executeAggregation (fails before touching DuckDB) and the destination write."""
    pat = re.compile(r"(func \(h \*ContinuousQueryHandler\) executeAggregation\([^)]*\) \(int64, error\) \{\n)")
    if len(pat.findall(src)) != 1:
        raise Exception("executeAggregation signature not found exactly once")
    src = pat.sub(lambda m: m.group(1) +
                  "\tif VerifAggFault != nil {\n\t\tif verr := VerifAggFault(cq.Name); verr != nil {\n\t\t\treturn 0, verr\n\t\t}\n\t}\n", src)
    # fault point / ground-truth counter around the destination write (same call text, exactly once)
    call = "h.arrowBuffer.WriteColumnarRecord(ctx, cq.Database, record)"
    if src.count(call) != 1:
        raise Exception("`%s` not found exactly once in continuous_query.go" % call)
    return src.replace(call, "verifWrite(h.arrowBuffer, ctx, cq.Database, record)")


def _rw_cq_scheduler(src):
    """Harness-driven ticks for the REAL runJob loop + a completion signal after executeJob."""
    if src.count("ticker:   time.NewTicker(interval),") != 1:
        raise Exception("`ticker:   time.NewTicker(interval),` not found exactly once in startJob")
    src = src.replace("ticker:   time.NewTicker(interval),", "ticker:   verifNewTicker(cqID, interval),")
    if src.count("\t\t\ts.executeJob(job)\n") != 1:
        raise Exception("`s.executeJob(job)` call in runJob not found exactly once")
    return src.replace("\t\t\ts.executeJob(job)\n", "\t\t\ts.executeJob(job)\n\t\t\tverifTickDone(job)\n")


SPEC = dict(
    id="C29",
    level_text=(
        "Lean 4 theorems over an executable model of ExecuteCQ / handleExecute / recordExecutionAndUpdateTime / "
        "handleUpdate / restart (state: persisted last_processed_time at RFC3339 second resolution, is_active; clock in "
        "unbounded integer nanoseconds), for ALL op histories: C29_chain (every window selected from the cursor starts "
        "exactly at the end of the last recorded execution), C29_fail_no_advance (aggregation failure, record failure, "
        "rejected destination write, rejected/dry-run/inactive executions, updates and restarts leave the cursor unchanged), "
        "C29_advance_only_if_written (the cursor moves only when the aggregated rows were accepted by the buffer), C29_label in full (rows of "
        "EVERY execution carry exactly the whole-second start of the window that was aggregated and reported — the "
        "sub-second label defect this check found was fixed in /repo 388c9ab), and — under the explicit decidable carve-out "
        "`tameOp` (no manual execution with an explicit start_time/end_time, no record failure after rows were written) — "
        "C29_contiguous_partial / C29_once_partial / C29_sched_contiguous_partial: successful windows tile the time axis: "
        "successive ones satisfy s_{i+1}=e_i and no instant is covered twice. The carve-outs are tight (known findings): "
        "C29_once_witness (manual backfill rewinds the cursor), C29_contiguous_witness (manual range ahead of the cursor "
        "leaves a gap), C29_rerun_witness (rows written but record failed => window re-run) are 3-4 step histories replayed "
        "on the real code. C29_source_shape ties the model's step order to facts regenerated from the source (aggregate, "
        "then record+advance in one transaction; which paths record; which value is stored; the label expression; the write "
        "error is returned; startTime/endTime are assigned only from cursor, request or clock — no clamp). "
        "The model is diffed op-by-op against the real handler + scheduler (SQLite + DuckDB + ArrowBuffer + local "
        "parquet) under a virtual clock; monitors check overlap/gap/label directly on the windows the real code executed."
    ),
    technique="Lean 4 invariant/induction proofs over an executable model; go/ast-regenerated step-order facts; "
              "differential correspondence of the real CQ handler + scheduler under a virtual clock with fault injection",
    factgen=True,
    clockify=[
        "internal/api/continuous_query.go",
        "internal/scheduler/cq_scheduler.go",
    ],
    hooks={
        "internal/api": "go/hooks/c29_api",
        "internal/scheduler": "go/hooks/c29_scheduler",
        "internal/license": "go/hooks/c29_license",
    },
    rewrite=[
        ("internal/api/continuous_query.go", _rw_cq_handler),
        ("internal/scheduler/cq_scheduler.go", _rw_cq_scheduler),
    ],
    harnesses=[dict(name="c29", tags="verif duckdb_arrow",
                    timeout=dict(quick=900, thorough=3000))],
    trusted_base=[
        "Go time.Format/Parse(RFC3339) and go-sqlite3's TIMESTAMP round trip are modelled as floor-to-second of a UTC "
        "instant (validated by the harness for clock epochs 1985, 2001, 2024, 2040 and 2099, including non-UTC offsets and "
        "fractional seconds in explicit start_time/end_time)",
        "DuckDB evaluates the window predicate `time >= '<start>' AND time < '<end>'` as the half-open interval "
        "[start, end) on microsecond timestamps (validated by the source-row counts of every execution in the harness)",
        "SQLite transactions are atomic (record failure is injected with a RAISE(ABORT) trigger on the real database file)",
        "within one execution the clock reads that choose the window happen at one instant (they are microseconds apart in "
        "reality); the harness does move the virtual clock by 1.5-2.5 s while the aggregation runs, so a cursor taken from the "
        "clock after the aggregation instead of the captured endTime is caught dynamically",
        "executions of one continuous query are sequential (histories are sequences, as in the property's quantifier); "
        "a manual execution racing a scheduled one is outside the model",
    ],
    assumptions=[
        "scheduled ticks are delivered by the harness to the real runJob loop through a replaced ticker channel "
        "(SPEC.rewrite of time.NewTicker in startJob); tick timing itself is not part of the property",
        "aggregation failure is injected by a fault point at the top of executeAggregation (SPEC.rewrite) and, "
        "independently, by updating the query to SQL that fails in DuckDB; a rejected destination write is injected by "
        "a wrapper around the WriteColumnarRecord call (SPEC.rewrite) and, independently, by a query whose `time` "
        "output is a non-RFC3339 string, which the real ArrowBuffer rejects",
    ],
)
