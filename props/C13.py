SPEC = dict(
    id="C13",
    level_text=(
        "Lean 4 theorems over ALL storage trees with distinct paths (association lists Path -> Bytes), ALL fault subsets "
        "(read failures, write failures before any byte or after k staged bytes, manifest write/read failure; any files; "
        "backup or restore phase), every restore target and - where the statement allows - ALL error policies: "
        "C13_roundtrip (no faults: backup completes, records 0 skipped, restore into empty storage completes and the "
        "restored storage maps p to b IFF the original holds b at p and p is a visible parquet or Iceberg-metadata file); "
        "C13_restore_honest (full clause 2, for every policy in which restoreDataFiles does not `continue` silently) with "
        "C13_restore_honest_iff (the full clause holds of a policy iff it does not continue silently); "
        "C13_backup_marks/_current (clause 3: a completed backup lacking any eligible file has manifest.skipped_files > 0; side "
        "conditions re-proved by `decide` over the regenerated policy), C13_backup_status, C13_backup_ratio. "
        "FINDING: for the source as found the regenerated fact restoreFileErr = 0 (log+continue, return nil) and the full "
        "restore clause is FALSE (C13_restore_honest_witness, replayed on the real Manager by the harness, key "
        "restore-success-missing-files:restoreDataFiles); what is proved for the current policy is "
        "C13_restore_honest_partial (carve-out: no restore-phase fault names a backed-up file) and C13_restore_counts "
        "(processed = total => everything restored). C13_restore_honest_current selects full vs carved by the regenerated "
        "fact, so the full theorem is the one in force after a repair. The model (policy = regenerated facts) is diffed "
        "against the real backup.Manager over fault-injecting wrappers of the real LocalBackend: statuses, persisted manifest "
        "counts, progress counters and the complete resulting trees (path, length, FNV-64 of content) on an edge grid and "
        "random trees."
    ),
    technique="Lean 4 proofs (induction over the per-file copy loop, extensional tree equality) over an executable model of CreateBackup/RestoreBackup whose per-file error policy is regenerated from the source by a go/ast extractor; differential correspondence against the real backup.Manager over fault-injecting LocalBackend wrappers; independent property monitors",
    factgen=True,
    hooks={"internal/backup": "go/hooks/c13_backup"},
    harnesses=[dict(name="c13", timeout=dict(quick=600, thorough=2400))],
    trusted_base=[
        "LocalBackend (WriteReader = stage to <path>.part then rename; ReadTo; List/ListObjects = WalkDir order minus hidden files) is modelled as an atomic put / lookup on an association list and a sort where '/' precedes every character; validated by the diff (full resulting trees incl. .part leftovers), not proved",
        "listing order is only validated: theorems hold for every tree order; the driver sorts with walkSort, the harness presents trees in random order",
        "float64(skipped) > 0.10*float64(total) is modelled as skipped*den > num*total over the exact fraction read from the maxSkipRatio literal (equal for all file counts < 2^50; boundary k-of-n grid in the harness)",
        "fault injection wraps the real LocalBackend (errors returned before any byte, reads that die after k bytes, transfers that die after k staged bytes); the backup destination is swapped through a verif-tagged overlay hook (internal/backup/zz_verif_c13.go: VerifC13WrapBackupStorage)",
        "factgen's shape expectations (go/factgen/cmd/c13): which statement shapes mean continue / count+continue / return err",
        "SQLite metadata, Iceberg catalog DB and arc.toml backup/restore (IncludeMetadata/IncludeConfig) are outside the property and not modelled; context cancellation and temp-file failures are not injected",
        "trees have distinct paths (a file system); no path is both a file and a directory",
    ],
    assumptions=[
        "a per-file failure is an error returned by ReadTo / WriteReader (silent short reads are not failures)",
        "no concurrent writer changes the data storage between listing and copy except as modelled by a read failure",
    ],
)
