SPEC = dict(
    id="C13",
    level_text=(
        "Lean 4 theorems over ALL storage trees with distinct paths (association lists Path -> Bytes), ALL fault subsets "
        "(persistent and TRANSIENT read failures - the first n attempts fail after delivering d bytes -, persistent and transient "
        "write failures before any byte or after k staged bytes, manifest write/read failure, SQLite / arc.toml "
        "step failure; any files; backup or restore phase), every restore target, every option set (backup with/without SQLite "
        "metadata and arc.toml; restore with RestoreMetadata/RestoreConfig on or off) and - where the statement allows - ALL "
        "error policies and step programs: C13_roundtrip / C13_roundtrip_full (no faults: backup completes, 0 skipped, restore "
        "into empty storage completes and maps p to b IFF the original holds b at p and p is a visible parquet or Iceberg-metadata "
        "file); C13_restore_honest (clause 2 for the whole RestoreBackup: completed => every backed-up file restored byte-for-byte, "
        "for every policy that does not silently continue a per-file error and whose step program is progOk, a decidable check over "
        "all requested-step x step-outcome combinations) and C13_restore_honest_current (both side conditions re-proved by `decide` "
        "over the regenerated per-file policy and the regenerated step program of RestoreBackup); C13_restore_data_honest_iff; "
        "C13_backup_marks/_current/_full_current (clause 3: a completed backup lacking any eligible file has manifest.skipped_files "
        "> 0), C13_backup_status, C13_backup_ratio, C13_restore_counts. Known-bad shapes are theorems: C13_restore_honest_witness "
        "(per-file continue, the finding fixed in 79c3a87), C13_restore_masked_witness (a later step's success overwrites the data "
        "error), C13_restore_noparquet_witness (data step skipped when total_files = 0 although the backup holds Iceberg metadata; the regenerated fact dataSkippedWhenNoParquet must be false), C13_backup_retry_witness (a read retry into the un-reset temp file stores prefix++content, 0 skipped). The number "
        "of ReadTo/WriteReader attempts per file and whether a retry resets the temp file are regenerated facts; every clause is "
        "proved under readExact (<= 1 attempt or resetting retry), re-proved by `decide` for the current source. The model (policy + step program = regenerated facts) is diffed against the real backup.Manager over fault-injecting "
        "wrappers of the real LocalBackend and a real SQLite file: statuses, persisted manifest counts and flags, progress counters, "
        "whether arc.db / arc.toml were restored, and the complete resulting trees (path, length, FNV-64) on an edge grid and random trees."
    ),
    technique="Lean 4 proofs (induction over the per-file copy loop, extensional tree equality) over an executable model of CreateBackup/RestoreBackup whose per-file error policy is regenerated from the source by a go/ast extractor; differential correspondence against the real backup.Manager over fault-injecting LocalBackend wrappers; independent property monitors",
    factgen=True,
    hooks={"internal/backup": "go/hooks/c13_backup"},
    harnesses=[dict(name="c13", timeout=dict(quick=600, thorough=2400))],
    trusted_base=[
        "LocalBackend (WriteReader = stage to <path>.part then rename; ReadTo; List/ListObjects = WalkDir order minus hidden files) is modelled as an atomic put / lookup on an association list and a sort where '/' precedes every character; validated by the diff (full resulting trees incl. .part leftovers), not proved",
        "listing order is only validated: theorems hold for every tree order; the driver sorts with walkSort, the harness presents trees in random order",
        "float64(skipped) > 0.10*float64(total) is modelled as skipped*den > num*total over the exact fraction read from the maxSkipRatio literal (equal for all file counts < 2^50; boundary k-of-n grid in the harness)",
        "fault injection wraps the real LocalBackend (errors returned before any byte, reads that die after k bytes, transfers that die after k staged bytes); the backup destination is swapped through a verif-tagged overlay hook (internal/backup/zz_verif_c13.go: VerifC13WrapBackupStorage)",
        "factgen's shape expectations (go/factgen/cmd/c13): which statement shapes mean continue / count+continue / return err",
        "SQLite metadata and arc.toml steps are modelled only as succeed/fail steps (has_metadata / has_config flags, restored yes/no); their content handling (WAL checkpoint, .before-restore copies) and the separate Iceberg catalog DB are not modelled; context cancellation and temp-file failures are not injected",
        "factgen's reading of RestoreBackup's step program (go/factgen/cmd/c13): `if err := step(); err != nil {fail}` = fail-now, `err = step()` without an immediate unconditional failure = assign to the shared variable, top-level `if err != nil {fail}` = check",
        "trees have distinct paths (a file system); no path is both a file and a directory",
    ],
    assumptions=[
        "a per-file failure is an error returned by ReadTo / WriteReader (silent short reads are not failures)",
        "no concurrent writer changes the data storage between listing and copy except as modelled by a read failure",
    ],
)
