SPEC = dict(
    id="C32",
    level_text="(under construction)",
    technique="Lean 4 proof over an executable model of the write/import/replication routing; differential correspondence through the real fiber handlers",
    factgen=False,
    hooks={"internal/ingest": "go/hooks/c32_ingest",
           "internal/cluster/replication": "go/hooks/c32_replication",
           "internal/cluster": "go/hooks/c32_cluster",
           "internal/api": "go/hooks/c32_api"},
    harnesses=[dict(name="c32", tags="verif duckdb_arrow", timeout=dict(quick=900, thorough=3000))],
    trusted_base=[],
    assumptions=[],
)
