SPEC = dict(
    id="C32",
    level_text=(
        "Lean 4 theorems over an executable model of every write surface: msgpack (decode incl. batch flattening, "
        "failing elements, nested batches; extractMeasurements; name validation; CheckWritePermissions; "
        "ArrowBuffer.Write dispatch), line protocol (/write, /api/v2/write, /api/v1/write/line-protocol, LP import: "
        "database from header/query per endpoint, RBAC before name validation), CSV/Parquet import (importPreamble), "
        "TLE write/import, buffer key -> splitBufferKey -> generateStoragePath, WAL emission (envelope vs plain rows "
        "with the routing entries written last), ParseEnvelope and the replication apply path. Proved at full "
        "strength for ALL requests, payloads and RBAC policies: C32_full_msgpack(+_paths), C32_full_lineprotocol"
        "(+_paths), C32_full_import, C32_full_tle (every key/path is <request db>/<m>/... with m name-validated, "
        "permission-checked and allowed, db and m slash-free); C32_msgpack_database; C32_payload_inert"
        "(_msgpack/_lineprotocol/_single): status, database, checked set and keys are a function of the payload "
        "skeleton only (all cell names/values erased); C32_denied_stores_nothing_{msgpack,lineprotocol,tle,import}; "
        "C32_envelope_roundtrip, C32_replicated (a replicated key is under the envelope's database or under the "
        "_database/_measurement of one of the entry's rows; cells named database/measurement/m are inert), "
        "C32_replicated_enveloped, C32_replicated_full_{msgpack,lineprotocol,single} (every key of the replicated copy "
        "is a key the writer stored); regression theorems C32_empty_measurement_rejected, C32_rejected_import_stops, "
        "C32_replicated_rows_follow_writer pin the behaviour repaired by 4889dd9, 24f8156, c684d79, 55fc210; "
        "C32_facts_tied consumes the regenerated facts by `decide`. The model is diffed against the REAL fiber handlers "
        "(app.Test), a recording RBAC checker, a real ArrowBuffer over a recording backend, a real wal.Writer whose "
        "replication hook feeds the REAL Receiver.applyEntry -> buildReplicationIngestHandler on a second ArrowBuffer."
    ),
    level_note=(
        "The msgpack/LP decoders, CSV/Parquet/TLE parsers and Arrow/Parquet encoding are outside the model: the "
        "harness classifies each generated element (decodes / errors / junk) and the correspondence checks that "
        "classification. The permission clauses are stated for RBAC enabled with a caller identity; the WAL crash "
        "recovery path (cmd/arc) is C05's subject."
    ),
    technique="Lean 4 proof over an executable routing model with regenerated source facts; differential correspondence through the real fiber handlers, ArrowBuffer, WAL hook and replication apply path",
    factgen=True,
    hooks={"internal/ingest": "go/hooks/c32_ingest",
           "internal/cluster/replication": "go/hooks/c32_replication",
           "internal/cluster": "go/hooks/c32_cluster",
           "internal/api": "go/hooks/c32_api"},
    harnesses=[dict(name="c32", tags="verif duckdb_arrow", timeout=dict(quick=900, thorough=3000))],
    trusted_base=[
        "fiber/fasthttp request parsing: c.Get / c.Query return \"\" for an absent and for an empty header/parameter (the op line carries what was sent; both map to the empty name in the model)",
        "the msgpack library, the line-protocol text parser, encoding/csv, arrow-go Parquet reader and the TLE parser: the harness labels each generated element as decoding / failing and the diff validates the label, the model starts from the decoded records",
        "Go map iteration order: measurements are validated / checked / written in an unspecified order; the model's outcome is order-independent (all-quantified checks), CheckPermission calls after the first denial are not compared",
        "the recording RBACChecker stands in for auth.RBACManager (allow-list: database allowed_db, measurements cpu, mem); token info is injected through c.Locals as the auth middleware does",
        "the in-process hand-over wal.Writer replication hook -> Receiver.applyEntry stands in for the authenticated TCP stream (sender/receiver framing and MACs are C24's subject)",
        "factgen's syntactic shape checks (extractMeasurements type switch, call order, key expressions, rowsToColumns list, importPreamble returns)",
    ],
    assumptions=[
        "rows of one measurement inside one request share their tag/field layout with disjoint tag and field names (the `_value` renaming of colliding names is not modelled); values are well typed so that convertColumnsToTyped succeeds",
        "the caller's identity is present (token info set) and RBAC enabled for the `checked` clauses; with RBAC off or without token info CheckWritePermissions consults nothing (modelled and diffed, no permission claim)",
        "database names reach AppendRawWithMeta validated (<= 64 bytes), so the envelope length field is exact",
    ],
)
