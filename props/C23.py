SPEC = dict(
    id="C23",
    level_text="Lean 4 theorems over the shared ClusterFSM model (Arc.Model.C22). Clause 4 at full strength: C23_rbac_parents / C23_rbac_cascade_index_complete — in EVERY reachable state (any commands incl. invalid/duplicate/out-of-order at any log indexes, snapshot+restore anywhere) every team/role/measurement permission/membership has its parents and is listed in the index its parent's cascade walks (invariant PInv through the three nested cascades; Restore re-establishes it for any snapshot). Clauses 1-3 are FALSE of the real FSM: witness theorems (C23_one_primary_witness, C23_primary_exists_witness_promote_unknown/_remove_primary/_rejoin, C23_reregister_witness) are replayed on the real code by the harness monitors, and C23_one_primary_partial, C23_primary_exists_partial, C23_marked_is_recorded_partial, C23_reregister_partial hold for every history inside the decidable carve-out roleSafe; C23_repaired_roles_full / C23_repaired_reregister_full show the proposed patch removes the carve-out (model of the patched functions, not tied to source). C23_model_quirks_tied re-proves from regenerated source facts that the model encodes the current shapes of applyAddNode/applyUpdateNode/applyPromoteWriter/applyRemoveNode/handleJoinRequest. The model is diffed line by line against the real FSM on all sequences up to the bound over a 15-letter node alphabet and a 12-letter RBAC alphabet (also after a hierarchy-building prefix) plus directed and random histories.",
    level_note="known findings: keys one-primary:node-payload, primary-exists:promote-unknown, primary-exists:remove-primary, primary-exists:record-replaced, reregister:role-changed",
    technique="Lean 4 invariant proof (RoleInv) by induction over histories with restores; witness theorems by evaluation; regenerated source-shape facts; differential correspondence on the real FSM",
    factgen=True,
    hooks={"internal/cluster/raft": "go/hooks/raft"},
    harnesses=[dict(name="c23", timeout=dict(quick=900, thorough=3000))],
    trusted_base=[
        "sync.RWMutex makes each Apply one atomic step; hashicorp/raft delivers committed entries in order",
        "encoding/json round-trip of the node map in Persist/Restore is the identity (validated by the harness at every snapshot)",
        "which committed commands real cluster traffic produces (handleJoinRequest, handleLeave, WriterFailoverManager) was read, not modelled; the property quantifies over committed commands",
    ],
    assumptions=[],
    exhaustive=True,
)
