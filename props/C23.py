SPEC = dict(
    id="C23",
    level_text="Lean 4 theorems over the shared model of the CURRENT ClusterFSM (Arc.Model.C22), all at full strength for EVERY history (any commands incl. invalid/duplicate/out-of-order at any log indexes, snapshot+restore anywhere): C23_one_primary (at most one node marked primary), C23_primary_exists (a non-empty primaryWriterID names an existing node marked primary), C23_marked_is_recorded, C23_reregister (AddNode/UpdateNode of an existing id keeps the recorded writer_state whatever the payload says and touches nothing else), C23_rbac_parents / C23_rbac_cascade_index_complete (every team/role/measurement permission/membership has its parents and is listed in the index its parent's cascade walks; invariant PInv through the three nested cascades; Restore re-establishes it for any snapshot). C23_membership_indexes_sound (increasing log indexes): every entry of the three membership indexes points at an existing membership with that team/token, so cascades walk exactly the right memberships. C23_model_quirks_tied re-proves from regenerated source facts that AddNode/UpdateNode keep the recorded writer state, PromoteWriter validates before mutating and RemoveNode clears primaryWriterID. C23_prefix_*_witness keep the pre-fix counterexamples as statements about explicitly named pre-fix functions. The model is diffed line by line against the real FSM on all sequences up to the bound over a 15-letter node alphabet and a 12-letter RBAC alphabet (also after a hierarchy-building prefix) plus directed and random histories; all role and RBAC-orphan monitors are live and silent.",
    level_note="no known findings on the current tree (the five pre-fix keys no longer fire)",
    technique="Lean 4 invariant proof (RoleInv) by induction over histories with restores; witness theorems by evaluation; regenerated source-shape facts; differential correspondence on the real FSM",
    factgen=True,
    hooks={"internal/cluster/raft": "go/hooks/raft"},
    harnesses=[dict(name="c23", timeout=dict(quick=900, thorough=3000))],
    trusted_base=[
        "sync.RWMutex makes each Apply one atomic step; hashicorp/raft delivers committed entries in order",
        "encoding/json round-trip of the node map in Persist/Restore is the identity (validated by the harness at every snapshot)",
        "which committed commands real cluster traffic produces (handleJoinRequest, handleLeave, WriterFailoverManager) was read, not modelled; the property quantifies over committed commands",
    ],
    assumptions=[],
    exhaustive=True,
)
