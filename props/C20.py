import re


def _fast_pbkdf2(src):
    """harness-only: PBKDF2 work factor 600k -> 1 (token hashing cost is irrelevant to C20; the
    verify path accepts any positive iteration count). Raises if the constant moved (tie broken)."""
    new, n = re.subn(r"const pbkdf2Iterations = [0-9_]+", "const pbkdf2Iterations = 1", src)
    if n != 1:
        raise Exception("const pbkdf2Iterations = <n> not found in internal/auth/auth.go")
    return new


def _pick_victims(src):
    """harness-only: the two capacity-eviction loops delete `the first key of a Go map iteration` (an
    arbitrary entry). Route that arbitrary choice through a hook so the harness knows the victim and can
    hand it to the model as the eviction oracle. Raises if the loops changed shape (tie broken)."""
    n_total = 0
    for cache, fn in (("permCache", "verifPickPerm"), ("tokenCache", "verifPickTok")):
        pat = r"(for k := range rm\.%s \{\n)(\s*)(delete\(rm\.%s, k\)\n\s*break)" % (cache, cache)
        src, n = re.subn(pat, lambda m: m.group(1) + m.group(2) + "k = %s(rm.%s, k)\n" % (fn, cache) + m.group(2) + m.group(3), src)
        if n != 1:
            raise Exception("eviction loop `for k := range rm.%s { delete(rm.%s, k); break }` not found exactly once" % (cache, cache))
        n_total += n
    return src


SPEC = dict(
    id="C20",
    level_text=("Lean 4: C20_full proves, for ALL op histories (all 18 mutating entry points, clock advances, checks) in both "
                "the direct-database and the cluster-apply mode and for all requests, that every permission check (single or batched, "
                "cache hit or miss) returns policy(current tables) — by the invariant 'every cache entry of a token that still "
                "authenticates equals the policy/loader on the current tables' — from the one finite fact `insufficient = []` about the "
                "facts that factgen regenerates from the source on every run: the per-method invalidation table (incl. the log-replay and "
                "the name-collision/re-align paths of ApplyCreateOrganization) AND the per-cache structure of the two invalidators "
                "(InvalidateTokenCache drops the data entry and scans the permission cache unconditionally; InvalidateAllCache replaces "
                "both maps). The two caches are modelled as independently bounded (capacity eviction with the victim as an oracle "
                "input, for every cache size) and independently swept (cleanupExpiredCache). C20_current is the statement computed from "
                "the regenerated facts: the unconditional full theorem when they are sufficient (the case for the current tree, after "
                "fixes d428cab/62ca961), else a stale-decision witness for each insufficient mutation; C20_partial is the full statement "
                "for every history avoiding insufficient mutations; guarded C20_witness_* keep the round-1 counterexamples. exec_effect proves for all tables/arguments that each op's success path stays "
                "within the class (neutral / token-local / token-gone / global) that decides which invalidation it needs. The model "
                "(incl. matchPattern, validation, cascades, TTL boundaries, hit/miss) is diffed against the real AuthManager + "
                "RBACManager (+ real raft.ClusterFSM and Apply* callbacks in cluster mode) on SQLite under a virtual clock; the "
                "harness monitor compares every cached decision with a cache-free evaluation on the same database."),
    technique="Lean 4 invariant proof over a model of the two RBAC caches; regenerated invalidation table; differential correspondence under a virtual clock",
    factgen=True,
    clockify=[
        "internal/auth/rbac_manager.go",
        "internal/auth/auth.go",
        "internal/auth/cluster_rbac_apply.go",
        "internal/auth/cluster_apply.go",
    ],
    hooks={"internal/license": "go/hooks/license_c20", "internal/auth": "go/hooks/auth_c20"},
    rewrite=[("internal/auth/auth.go", _fast_pbkdf2), ("internal/auth/rbac_manager.go", _pick_victims)],
    harnesses=[dict(name="c20", timeout=dict(quick=600, thorough=3000))],
    trusted_base=[
        "SQLite semantics (ON DELETE CASCADE with foreign_keys=ON, UNIQUE, AUTOINCREMENT never reusing ids) are modelled (cascade = keep children whose parent remains) and validated by the correspondence, not proved",
        "row ids are inputs of the model's create ops (taken from the implementation: AUTOINCREMENT / Raft log index); the theorems only need them fresh (token ids: never used before), which the model checks (`bad-id`)",
        "VerifyToken returns the token's current row (AuthManager's own token cache is invalidated by every token mutation — checked syntactically by factgen; its races are property C21)",
        "sync.RWMutex makes each check / mutation one atomic step",
        "capacity eviction removes an ARBITRARY entry (Go map iteration order): the overlay routes that choice through a hook (SPEC.rewrite of the two eviction loops; any choice is a legal behaviour of the original) so the harness can hand the victim to the model; with a small MaxCacheSize the harness issues single-token batches only (CheckPermissionsBatch visits its per-token groups in map order)",
        "direct→cluster switch (upgrade seed): the FSM's log index starts above every local id, so every seeded organization takes the re-align path; tokens created before the switch are unknown to the FSM (modelled: fsmTokFrom); re-using the NAME of such a token in cluster mode diverges FSM and SQLite and is not modelled (the harness avoids it)",
        "cluster-apply mode = this node is the Raft leader and applies each proposal to the real ClusterFSM synchronously (follower replication lag is outside the property: 'after the change has returned')",
        "the classification classOf (which decisions a mutation can change) is hand-written but PROVED adequate (exec_effect); the op list is tied to the source by factgen's completeness check (unmodelled mutating method = SHAPE-MISMATCH)",
    ],
    assumptions=[
        "RBAC feature enabled (licensed); with RBAC off CheckPermission does not cache at all",
        "tokens carry no expires_at in the explored universe (expiry only removes authentication, like revoke; un-expiring a token via UpdateToken is not modelled)",
        "organization.enabled is not consulted by the policy code (checkRBACPermissionCached looks at team.Enabled only) — modelled as it is",
        "permission strings of tokens are comma-separated verbs without blanks (what the API layer produces)",
    ],
)
