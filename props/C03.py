def _trace_points(src):
    """Adds (never removes) trace calls inside the critical sections of ArrowBuffer. Every pattern is
    located textually with an expected occurrence count; a refactor that moves one raises = tie broken."""
    def rep(s, pat, new, count):
        if s.count(pat) != count:
            raise Exception("trace point pattern occurs %d times, expected %d: %r" % (s.count(pat), count, pat[:70]))
        return s.replace(pat, new)
    s = src
    # (1) batch appended to the per-key buffer (both write paths), under shard.mu
    p = "\tshard.buffers[bufferKey] = append(shard.buffers[bufferKey], typedColumns)\n"
    s = rep(s, p, p + "\tb.verifC03Emit(\"append\", bufferKey, []interface{}{typedColumns})\n", 2)
    # (2) size-triggered extraction (both write paths), same critical section
    p = "\t\tdelete(shard.bufferSchemas, bufferKey)\n\n\t\tshouldFlush = true\n"
    s = rep(s, p, "\t\tdelete(shard.bufferSchemas, bufferKey)\n\t\tb.verifC03Emit(\"extract\", bufferKey, recordsToFlush)\n\n\t\tshouldFlush = true\n", 2)
    # (3) synchronous extraction in flushBufferLocked (schema change / age / FlushAll / Close)
    p = "\tdelete(shard.bufferSchemas, bufferKey)\n\n\t// Release lock before expensive operations\n\tshard.mu.Unlock()\n"
    s = rep(s, p, "\tdelete(shard.bufferSchemas, bufferKey)\n\tb.verifC03Emit(\"syncextract\", bufferKey, recordsToFlush)\n\n\t// Release lock before expensive operations\n\tshard.mu.Unlock()\n", 1)
    # (4) tryEnqueueFlush outcomes
    p = "\tif b.closing.Load() {\n\t\tflushCancel()\n"
    s = rep(s, p, p + "\t\tb.verifC03EmitWhy(\"enqfail\", bufferKey, \"closing\", task.records)\n", 1)
    p = "\tselect {\n\tcase b.flushQueue <- task:\n\t\tb.queueDepth.Add(1)\n"
    s = rep(s, p, "\tvrecs := b.verifC03Pre(task.records)\n\tselect {\n\tcase b.flushQueue <- task:\n\t\tb.verifC03Post(\"enq\", bufferKey, \"\", vrecs)\n\t\tb.queueDepth.Add(1)\n", 1)
    p = "\tcase <-b.ctx.Done():\n\t\tflushCancel()\n"
    s = rep(s, p, "\tcase <-b.ctx.Done():\n\t\tb.verifC03Post(\"enqfail\", bufferKey, \"ctx\", vrecs)\n\t\tflushCancel()\n", 1)
    p = "\tdefault:\n\t\tflushCancel()\n"
    s = rep(s, p, "\tdefault:\n\t\tb.verifC03Post(\"enqfail\", bufferKey, \"full\", vrecs)\n\t\tflushCancel()\n", 1)
    # (5) worker takes a task
    p = "\t\t\tb.queueDepth.Add(-1)\n"
    s = rep(s, p, p + "\t\t\tb.verifC03Emit(\"take\", task.bufferKey, task.records)\n", 1)
    # (6) worker finished a task (harness synchronisation only; not an LTS event)
    p = "\t\t\ttask.cancel()\n"
    s = rep(s, p, p + "\t\t\tb.verifC03EmitWhy(\"workerdone\", task.bufferKey, \"\", nil)\n", 1)
    return s


SPEC = dict(
    id="C03",
    level_text=(
        "Lean 4 theorems over an executable model of arrow_writer.go's flush pipeline and of the ArrowBuffer "
        "as an LTS. Pure layer, all sizes and all int64 timestamps: C03_hour_floor/_int64/_bitvec (HourBucketID is "
        "floor division by 3.6e9 on Int, with every int64 intermediate wrapped, and on BitVec 64), "
        "C03_group_partition, C03_radix_sorted_perm_stable (8 stable counting passes with sign bias, induction on "
        "passes), C03_sort_sorted_perm (all three paths of permuteByTime), C03_gather_rows/C03_sort_preserves_rows "
        "(validity aligned), C03_merge_rows (sparse column = NULL), C03_flush_files (files of a flush partition the "
        "rows by hour, each time-sorted). LTS layer: C03_invariant (accepted = buffered+extracted+queued+in-flight+"
        "stored+dropped as multisets, every reachable state, any interleaving) and C03_full (quiescent, nothing "
        "dropped => stored = accepted, each file in the hour directory of all its rows and time-sorted) under the "
        "explicit FreshNames hypothesis; witnesses for a file-name clash, Close with queued tasks, the merge "
        "type conflict (merge error) and the schema-cache key collision (fixed in 7029960). Tied to the source by regenerated constants/shapes "
        "(factgen), a differential harness of the real pure functions incl. the Parquet round trip, and trace "
        "refinement: traces of the real ArrowBuffer (1-8 writers) are replayed through the Lean LTS. "
        "Parquet encoding/decoding, the time package's calendar and sort.Slice are validated, not proved."
    ),
    technique="Lean 4 proofs (induction on radix passes, grouping-loop invariant, LTS conservation invariant) over an executable model; regenerated facts; differential correspondence of exported pure functions; trace refinement of the instrumented real ArrowBuffer",
    factgen=True,
    clockify=["internal/ingest/arrow_writer.go"],
    hooks={"internal/ingest": "go/hooks/ingest_c03"},
    rewrite=[("internal/ingest/arrow_writer.go", _trace_points)],
    harnesses=[dict(name="c03", timeout=dict(quick=900, thorough=3000))],
    trusted_base=[
        "Arrow/Parquet writer and arrow-go reader (WriteParquetColumnar round trip is validated on every flush op and every traced file, not modelled); ArrowWriter's schema cache is outside the model (see finding rows-lost:schema-cache-key-collision)",
        "sync.Mutex / channel operations make each traced critical section one atomic LTS step; the trace points are added by a textual rewrite of the current arrow_writer.go (pattern counts checked) and recorded under one trace mutex",
        "time.UnixMicro/Truncate/Format (calendar) — cross-checked against an independent civil-date computation for years 1..9999",
        "sort.Slice (pdqsort) in the < 4096-row path is modelled by a merge sort; only 'sorted permutation' is claimed there and the diff is up to the order of equal timestamps",
        "uint64(t) ^ 2^63 is modelled arithmetically as (t + 2^63) mod 2^64 (diffed on the real radixSortBias incl. extremes)",
        "storage.Backend.Write has replace semantics (in-memory backend in the harness)",
    ],
    assumptions=[
        "FreshNames: two flushes of one partition never get the same file name (generateStoragePath uses time.Now() seconds + nanoseconds); C03_name_clash_witness and the frozen-clock harness case show the earlier file is overwritten when violated",
        "accepted batches are well formed (wfBatch: unique non-internal column names, non-null int64 time column, equal column lengths) — what convertColumnsToTyped / typed parsers produce; the LTS checks it on every traced append",
        "queue overflow / enqueue after Close / tasks still queued at Close are excluded (dropped = []): C07",
        "storage writes succeed (C07)",
        "default sort configuration (time only)",
        "timestamps whose hour start is below the int64 range (first partial hour after MinInt64) are excluded from the multi-hour path statement (C03_hour_start_wrap_witness)",
    ],
)
