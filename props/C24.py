import re

_IMPORT = '\nimport verifsched "github.com/basekick-labs/arc/internal/verif/verifsched"\n'


def _add_import(src):
    m = re.search(r"^package\s+\w+.*$", src, re.M)
    if not m:
        raise Exception("no package clause")
    return src[:m.end()] + _IMPORT + src[m.end():]


def _func_span(src, hdr):
    if src.count(hdr) != 1:
        raise Exception("expected exactly one `%s`, found %d" % (hdr.strip(), src.count(hdr)))
    i = src.index(hdr) + 1
    j = src.find("\nfunc ", i)
    return i, (len(src) if j < 0 else j + 1)


def rewrite_sender(src):
    """schedule point between sequence assignment and the channel send of Sender.Replicate
    (located by pattern inside the function; a missing pattern raises = tie broken)."""
    i, j = _func_span(src, "\nfunc (s *Sender) Replicate(")
    body = src[i:j]
    pat = re.compile(r"^([ \t]*)entry\.Sequence = s\.sequence\.Add\(1\)[ \t]*\n", re.M)
    ms = list(pat.finditer(body))
    if len(ms) != 1:
        raise Exception("Sender.Replicate: `entry.Sequence = s.sequence.Add(1)` found %d times" % len(ms))
    if "s.entryChan <- entry" not in body[ms[0].end():]:
        raise Exception("Sender.Replicate: no `s.entryChan <- entry` after the sequence assignment")
    m = ms[0]
    body = body[:m.end()] + m.group(1) + 'verifsched.Point("c24.assigned")\n' + body[m.end():]
    return _add_import(src[:i] + body + src[j:])


def rewrite_wal(src):
    """schedule point between `w.sequence++ … w.mu.Unlock()` and `hook(...)` in both append paths."""
    n = 0
    for fn in ("AppendRawWithMeta", "AppendRaw"):
        i, j = _func_span(src, "\nfunc (w *Writer) %s(" % fn)
        body = src[i:j]
        pat = re.compile(r"^([ \t]*)hook := w\.replicationHook[ \t]*\n[ \t]*w\.mu\.Unlock\(\)[ \t]*\n", re.M)
        ms = list(pat.finditer(body))
        if len(ms) != 1:
            raise Exception("Writer.%s: `hook := w.replicationHook; w.mu.Unlock()` found %d times" % (fn, len(ms)))
        m = ms[0]
        if not re.search(r"\bhook\(", body[m.end():]):
            raise Exception("Writer.%s: no hook(...) call after the unlock" % fn)
        body = body[:m.end()] + m.group(1) + 'verifsched.Point("c24.wal.assigned")\n' + body[m.end():]
        src = src[:i] + body + src[j:]
        n += 1
    return _add_import(src)


SPEC = dict(
    id="C24",
    level_text=(
        "Lean 4 theorems over an LTS (Arc.C24.step) with any number of producer threads (assign-sequence and enqueue as "
        "separate atomic steps unless the regenerated fact says they share a critical section), a bounded FIFO with reported "
        "drops, per-session tags/running hash/periodic checkpoints, reconnects, and a wire that may deliver ANY frame at ANY "
        "time: for all reachable states C24_applied_sorted (applied sequence numbers strictly increasing, no crypto "
        "assumption), C24_no_replay, C24_authentic (hypothesis Unforgeable), C24_drops_reported (every assigned number is "
        "enqueued, held or reported dropped; FIFO; a session is a contiguous segment), C24_checkpoint (Unforgeable + "
        "CollisionFree + ordered channel + non-empty payloads + no local apply failure: at every verified checkpoint the "
        "session's applied entries are exactly a prefix of what the sender emitted). C24_checkpoint_hash_scope_tied / C24_checkpoint_source consume the regenerated scope of the running hash (whole session on both sides; a per-window hash makes the gap-free clause false and breaks that obligation by name). The last clause of the property is "
        "FALSE of the current source for >= 2 producers: C24_healthy_witness (4-step schedule) and C24_healthy_partial under the "
        "decidable carve-out (atomic fact or one producer); C24_healthy_source turns it into the full theorem once factgen "
        "sees assignment and enqueue in one critical section. The LTS is tied to the code by trace refinement: the real "
        "Sender/Receiver (and the real wal.Writer hook path) run over net.Pipe behind a frame-level adversary proxy under "
        "forced schedules and with 1-16 free-running producers; every observed event must be an enabled transition with the "
        "predicted outcome (sequence, queued/dropped, checkpoint emission, applied / drop reason)."),
    technique="Lean 4 invariant proofs over an LTS; generated atomicity / receiver-order facts; trace refinement of the real Sender+Receiver over net.Pipe with forced schedules and an adversary proxy",
    factgen=True,
    clockify=["internal/cluster/security/auth.go"],
    hooks={"internal/cluster/replication": "go/hooks/c24_replication"},
    packages={"internal/verif/verifsched": "go/verifsched"},
    rewrite=[("internal/cluster/replication/sender.go", rewrite_sender),
             ("internal/wal/wal.go", rewrite_wal)],
    harnesses=[dict(name="c24", timeout=dict(quick=600, thorough=2400))],
    trusted_base=[
        "HMAC-SHA256 (8-byte truncated entry tag under the HKDF session key; full checkpoint HMAC under the cluster secret) is modelled symbolically: hypotheses Unforgeable / CollisionFree (also for the 8-byte payload-hash prefix the tag binds); the driver decides verification by identity of (seq, payload, tag) with what the sender emitted, and the diff against the real receiver validates that on every delivered frame",
        "encoding/json framing: the model starts after ParseEntry/ParseCheckpoint (the harness decodes mutated frames with the same decoder); length-prefix corruption is not exercised",
        "sync.Mutex / atomic.Uint64.Add / channel send are atomic steps; Go channels are FIFO",
        "the harness reconstructs the linearisation of free-running producers from the observed sequence numbers and channel order (canonical: assigns in counter order as late as possible, enqueues in channel order)",
        "go/verifsched (shared with C21) and the textual insertion of schedule points by props/C24.py",
        "TLS/TCP are not modelled (net.Pipe); the protocol-level handshake (MsgReplicateSync) is C26's subject — sessions here start from an agreed nonce",
    ],
    assumptions=[
        "callers of wal.Writer.AppendRaw do not write to the payload slice after the call (the hook forwards that very slice and the Sender only queues it); for AppendRawWithMeta the freshness of the envelope is a regenerated fact (C24_payload_ownership_tied) and bursts behind a stalled reader are exercised with payload bytes copied at append time",
        "one reader connection at a time per sender (the broadcast loop treats readers independently)",
        "entries distributed while no reader is connected are not re-sent (the code has no catch-up path); the property is read as 'while a reader stays connected'",
        "payloads are non-empty for the checkpoint theorem (the running hash is over the concatenation of payloads, an empty payload is invisible to it; wal payloads are msgpack/envelopes, never empty)",
        "a writer restart resets Sender.sequence to 0 while a live reader keeps lastSeq — outside this property (not writer concurrency)",
    ],
)
