import re

_IMPORT = '\nimport verifsched "github.com/basekick-labs/arc/internal/verif/verifsched"\n'


def _add_import(src):
    m = re.search(r"^package\s+\w+.*$", src, re.M)
    if not m:
        raise Exception("no package clause")
    return src[:m.end()] + _IMPORT + src[m.end():]


def _func_span(src, recv_name):
    """[start, end) of the top-level method `func (am *AuthManager) <name>(`"""
    hdr = "\nfunc (am *AuthManager) %s(" % recv_name
    if src.count(hdr) != 1:
        raise Exception("expected exactly one `%s`, found %d" % (hdr.strip(), src.count(hdr)))
    i = src.index(hdr) + 1
    j = src.find("\nfunc ", i)
    return i, (len(src) if j < 0 else j + 1)


def _insert_before_last(body, line_re, point, what):
    ms = list(re.finditer(line_re, body, re.M))
    if not ms:
        raise Exception("schedule point %s: pattern not found (%s)" % (point, what))
    m = ms[-1]
    indent = re.match(r"[ \t]*", m.group(0)).group(0)
    return body[:m.start()] + indent + 'verifsched.Point("%s")\n' % point + body[m.start():]


def _insert_after_last(body, line_re, point, what):
    ms = list(re.finditer(line_re, body, re.M))
    if not ms:
        raise Exception("schedule point %s: pattern not found (%s)" % (point, what))
    m = ms[-1]
    indent = re.match(r"[ \t]*", m.group(0)).group(0)
    return body[:m.end()] + indent + 'verifsched.Point("%s")\n' % point + body[m.end():]


def _insert_mark_before(body, line_re, what):
    ms = list(re.finditer(line_re, body, re.M))
    if len(ms) != 1:
        raise Exception("marker: expected exactly one %s, found %d" % (what, len(ms)))
    m = ms[0]
    return body[:m.start()] + "\tverifsched.Mark()\n" + body[m.start():]


def _point_after_exec(src, fname):
    """mutators: park between the SQL statement and everything that follows it (rows-affected check,
    InvalidateCache): right after the `if err != nil { … }` block that follows the LAST am.db.Exec( of
    the function."""
    i, j = _func_span(src, fname)
    body = src[i:j]
    k = body.rfind("am.db.Exec(")
    if k < 0:
        raise Exception("%s: no am.db.Exec( call" % fname)
    m = re.compile(r"^\tif err != nil \{\n(?:\t\t.*\n)+?\t\}\n", re.M).search(body, k)
    if not m:
        raise Exception("%s: no `if err != nil {…}` after am.db.Exec(" % fname)
    body = body[:m.end()] + '\tverifsched.Point("m.upd")\n' + body[m.end():]
    # non-parking marker right before the statement that asks the pool for a connection
    ls = body.rfind("\n", 0, k) + 1
    if not body[ls:k].startswith("\t") or body[ls:k].startswith("\t\t"):
        raise Exception("%s: am.db.Exec( is not a top-level statement of the function" % fname)
    body = body[:ls] + "\tverifsched.Mark()\n" + body[ls:]
    return src[:i] + body + src[j:]


def rewrite_auth(src):
    """schedule points of VerifyToken and of the direct-SQLite mutators (positions located by pattern
    inside the named function; a missing pattern raises = tie broken)."""
    i, j = _func_span(src, "VerifyToken")
    body = src[i:j]
    if "am.db.Query(" not in body or "rows.Scan(" not in body:
        raise Exception("VerifyToken: db.Query/rows.Scan shape changed")
    # on the cache-hit path: right after the read lock is released inside the hit branch (before anything
    # the branch does afterwards, and before its return)
    ms = list(re.finditer(r"^\t\tam\.cacheMu\.RUnlock\(\)\n", body, re.M))
    if len(ms) != 1:
        raise Exception("schedule point v.hit: expected exactly one two-tab RUnlock (hit branch), found %d" % len(ms))
    body = body[:ms[0].end()] + '\t\tverifsched.Point("v.hit")\n' + body[ms[0].end():]
    # after the cache miss: after the last one-tab RUnlock (the miss path)
    body = _insert_after_last(body, r"^\tam\.cacheMu\.RUnlock\(\)\n", "v.miss", "miss-path RUnlock")
    # after the database read of a candidate row, before the hash check
    body = _insert_before_last(body, r"^\t\tif !am\.verifyTokenHash\(token, \w+\) \{\n", "v.row", "hash check")
    # before the cache insert: the last write-lock acquisition of the function
    body = _insert_before_last(body, r"^\t+am\.cacheMu\.Lock\(\)\n", "v.preins", "cache insert Lock")
    # after the cache insert (still holding the query's rows): the last write-unlock
    body = _insert_after_last(body, r"^\t+am\.cacheMu\.Unlock\(\)\n", "v.ins", "cache insert Unlock")
    # non-parking marker right before the query asks the pool for a connection
    body = _insert_mark_before(body, r"^\t\w+, err :?= am\.db\.Query\(", "VerifyToken db.Query")
    # rows exhausted without a match
    body = _insert_before_last(body, r"^\treturn nil\n", "v.norow", "final return nil")
    src = src[:i] + body + src[j:]
    for f in ("RevokeToken", "DeleteToken", "RotateToken", "UpdateToken"):
        src = _point_after_exec(src, f)
    return _add_import(src)


def rewrite_cluster_apply(src):
    for f in ("ApplyRevokeToken", "ApplyDeleteToken", "ApplyRotateToken", "ApplyUpdateToken"):
        src = _point_after_exec(src, f)
    return _add_import(src)


SPEC = dict(
    id="C21",
    level_text=("Lean 4 theorems over an interleaving LTS (any number n of VerifyToken threads x one token mutator, every interleaving, clock ticks "
                "and janitor runs anywhere). C21_full — after Revoke/Delete/RotateToken returned, no verification that starts afterwards authenticates the "
                "old value — is proved for every source configuration with a serialising single DB connection OR a generation-guarded cache insert. On the "
                "current source it rests ONLY on the first: db.SetMaxOpenConns(1) in NewAuthManager + VerifyToken keeping its rows open (deferred Close, "
                "insert inside the rows.Next() loop), so the mutator's SQL cannot run between a verifier's database read and its cache insert. That fact is "
                "regenerated by factgen on every run and C21_full_applies/C21_full_current re-check it by `decide` (also: InvalidateCache after every "
                "mutator's SQL, C21_invalidation_sites); if it changes, C21_full_applies breaks and the forced-schedule harness reaches the stale-insert "
                "schedule on the real code (C21_full_witness; seeded mutant SetMaxOpenConns(4) -> stale-auth-after-* replays). C21_partial needs no such "
                "fact. Both also assume that the cache-HIT path does not write the cache after releasing the read lock (factgen: nothing reachable from "
                "the hit branch takes cacheMu.Lock or assigns am.cache; part of C21_full_applies / C21_authn_applies); C21_full_touch_witness shows a "
                "sliding-expiration re-insert there defeats the single connection, and the harness has a schedule point on the hit path (v.hit) and "
                "enumerates warm caches past half their TTL so that such a write is reached on the real code. C21_authn_iff (authenticates only if issued, enabled, not expired; sequential and concurrent) is the checked full theorem since "
                "/repo b9131b8: C21_authn_applies ties the expires_at re-check of the cache-hit path to the source, C21_authn_iff_current instantiates it; "
                "C21_authn_expiry_witness is the pre-fix counterexample, C21_authn_iff_partial the configuration-independent bound. C21_authn_after_return(_current): once ANY mutator (revoke/delete/rotate/expires_at update) returned, a verification starting afterwards is "
                "justified by the post-mutation row (enabled, hash, not expired at its clock) — rests on C21_invalidation_sites (every mutator incl. "
                "UpdateToken invalidates unconditionally; factgen counts only a top-level InvalidateCache after the SQL). Cluster-apply LOG REPLAY "
                "(restart re-applies the Raft log against the persistent row) is modelled at function level (Model/C21Replay): C21_replay_create_fact "
                "(identical replayed ApplyCreateToken returns before any write, no upsert) => C21_replay_create_inert and C21_replay_revoked_stays (a "
                "revoked token is rejected after every replayed entry of any delete-free log); C21_replay_witness is the upsert counterexample; "
                "C21_replay_window_witness records what replay does even on the current source (deleted row re-inserted until the delete is replayed, "
                "intermediate rotation value / earlier expiry until the later entry is replayed) — observed on the real Apply*Token too, reported as tags "
                "`replay-window:*` (stats.extra.replay_windows_observed), NOT as failures. The LTS is tied to the "
                "code by forced schedules: every interleaving of <=3 verifiers x 1 mutator over 6+1 injected schedule points (direct and cluster-apply "
                "mode; complete in thorough except RotateToken-direct with 3 verifiers, a DFS prefix) is executed on the real AuthManager/SQLite and "
                "replayed through the LTS, including the steps observed BLOCKED on the pooled connection."),
    technique="Lean 4 invariant proof over an interleaving LTS (n verifiers x 1 mutator); regenerated structural facts; forced-schedule trace refinement against the real AuthManager",
    factgen=True,
    exhaustive=False,
    clockify=["internal/auth/auth.go"],
    packages={"internal/verif/verifsched": "go/verifsched"},
    hooks={"internal/auth": "go/hooks/auth_c21"},
    rewrite=[("internal/auth/auth.go", rewrite_auth), ("internal/auth/cluster_apply.go", rewrite_cluster_apply)],
    harnesses=[dict(name="c21", timeout=dict(quick=600, thorough=2700))],
    trusted_base=[
        "C21_full on the current source rests on an incidental serialisation: SetMaxOpenConns(1) + *sql.Rows held open across the cache insert (no generation guard in the source). The dependency is explicit: factgen facts max_open_conns / rows_held_across_insert -> C21_full_applies; the harness observes the blocking on the real pool",
        "database/sql + mattn/go-sqlite3: a *sql.Rows keeps its pooled connection until Close; with SetMaxOpenConns(1) db.Exec waits for it (the harness OBSERVES this wait via db.Stats() and the model must agree, but the library is not modelled further)",
        "the harness calls a step 'blocked on the pooled connection' only when the thread itself announced the acquisition (verifsched.Mark injected right before db.Query/db.Exec), the pool reports a new waiter and no free connection, AND another controlled thread is parked while owning its rows; any inconsistent observation discards and re-executes the schedule (never written to impl.txt). Elapsed time alone never decides blockedness",
        "sync.RWMutex critical sections and single SQL statements are atomic steps of the LTS",
        "hash verification is abstracted to 'the stored hash verifies exactly one token value' (PBKDF2/bcrypt/sha256 collision freedom); the sha256 token_prefix is abstracted to the same value unless the row is `__legacy__`",
        "one token row is modelled; other tokens only interact through whole-cache invalidation and eviction (pure removals)",
        "the cluster-apply mode is driven through a harness RaftProposer that calls Apply*Token synchronously, as the FSM apply callback does; Raft itself is out of scope (C22)",
        "schedule points are injected into overlay copies of auth.go / cluster_apply.go by pattern (props/C21.py); the virtual clock by clockify",
    ],
    assumptions=[
        "one mutation of the token at a time (the theorems start from any invariant-satisfying state, so sequences of mutations compose)",
        "goroutines other than VerifyToken callers and the mutator (last_used_at writer, janitor) never add cache entries",
    ],
)
