SPEC = dict(
    id="C11",
    level_text=(
        "Lean 4: for ALL stores (any files, any row timestamps incl. NULL), policies (with/without measurement filter), "
        "clock values and histories (external store changes such as compaction interleaved with runs), over an executable "
        "model of retention.go (cutoff = now - (retention+buffer) days in ns, measurement discovery, listing by key prefix, "
        "per-file MAX(time) decision, dry run): C11_safe (a removed file holds only rows strictly older than the cutoff), "
        "C11_complete (no remaining parquet file of a covered measurement has a timestamped row and only rows older than "
        "the cutoff), C11_boundary (MAX(time) >= cutoff, in particular = cutoff, is kept), C11_dryrun (deletes nothing, "
        "identical report), C11_report (reported files/rows = what disappeared), C11_prefix / C11_other_untouched "
        "(`db/m/` never selects keys of `db/m2/` or `db2/`), C11_history_safe. The comparator (`maxTime.Before(cutoffDate)`) "
        "and the trailing '/' of both listing prefixes are GENERATED from the current source and consumed by "
        "C11_comparator_strict / C11_prefix_slash; C11_tight_witness shows `<=` would delete the boundary file. "
        "The model is diffed against the real RetentionHandler (HTTP execute incl. dry run, and ExecutePolicy as the "
        "scheduler calls it) + DuckDB + LocalBackend under a virtual clock."),
    technique="Lean 4 proof over an executable model of RetentionHandler (cutoff, per-file MAX(time) decision with the comparator generated from source, prefix selection, dry run); differential correspondence against the real handler + DuckDB under a virtual clock",
    factgen=True,
    clockify=["internal/api/retention.go"],
    harnesses=[dict(name="c11", tags="verif duckdb_arrow", timeout=dict(quick=900, thorough=3000))],
    trusted_base=[
        "DuckDB MAX(time)/COUNT(*) over a parquet file = maximum of the non-NULL `time` values (µs) / number of rows; a NULL maximum fails the Go scan and the file is skipped (validated by the correspondence)",
        "Go time.Time.AddDate on a UTC instant subtracts whole 86400 s days; time.Before compares at ns resolution (validated, incl. sub-µs clock phases)",
        "storage listing by key prefix: LocalBackend.List(`db/m/`) (directory walk) returns exactly the non-hidden keys with that string prefix (validated on prefix-sharing names); S3/Azure list by string prefix natively",
        "the receiver's clock is the virtual clock injected by the overlay's clockify rewrite of internal/api/retention.go",
        "go/factgen/cmd/c11: recognition of the eligibility condition, the prefix concatenations and the cutoff expression",
    ],
    assumptions=[
        "storage.Delete succeeds for every eligible file (a failing delete is logged and skipped by the code while the run still reports success) and no coordinator is attached (standalone; the cluster manifest path is not modelled)",
        "files whose base name starts with '.' and parquet files placed directly under `db/` are outside the modelled layouts",
        "a parquet file with no timestamped row (empty, or all `time` NULL) is never deleted by retention; C11_complete speaks about files with at least one timestamped row",
        "compaction inside histories is represented as an external replacement of files by a merged file (arc's compactor itself is C09)",
    ],
)
