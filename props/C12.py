SPEC = dict(
    id="C12",
    level_text=(
        "Lean 4 theorems over an interpreter of the MigrateFile step list that factgen regenerates from "
        "internal/tiering/migrator.go on every run (order of RecordMigration / streaming copy / UpdateTier / "
        "source Delete / CompleteMigration with the error policy of each step), the generated guard/probe/delete "
        "tiers of ReconcileOrphanedFiles, the phase order of RunMigrationCycle and the tier-selection table of "
        "buildMultiTierReadParquet. Reachable = any history of migrate / reconcile / scan operations, each under an "
        "arbitrary fault oracle (a crash at any mutation incl. every chunk of the copy, any combination of step "
        "failures incl. source-read failures of the streaming copy, retries, ageing past the 48 h reconcile window), any file size. PROVED for all reachable states: C12_readable (the tier the metadata "
        "points to holds the complete file), C12_readable_some_tier, C12_visible (a multi-tier query returns the rows "
        "at least once, whatever other files the measurement has); C12_once_migration (a fault-free migration/retry "
        "ends with exactly one visible copy); C12_once_cycle (a fault-free RunMigrationCycle from any reachable state "
        "ends with exactly one visible copy). The clause 'once ... orphan reconciliation has finished, queries see "
        "each row exactly once' is FALSE for the current code: C12_once_witness (crash between copy and UpdateTier, "
        "then a clean reconciliation, measurement with other cold files => every row twice), proved only as "
        "C12_once_partial / C12_once_reconcile_partial under the carve-out 'the result is not a cold orphan in a "
        "measurement with other cold files'. All of these reduce, through a simulation lemma valid for EVERY step "
        "list, to decidable checks over the generated terms (C12_steps_safe, by `decide`). The model is diffed "
        "against the real Manager/Migrator over two fault-injecting wrappers of the real LocalBackend and the real "
        "SQLite metadata (fault-injecting database/sql driver wrapper), at every crash point and every single step "
        "failure for 3 file sizes (4 in thorough) x 5 follow-ups (reconcile, retry, reconcile+retry, cycle, "
        "scan+reconcile), all two-fault oracles, faults inside the follow-up, and random histories; after every "
        "operation the bytes per tier, the tier_files row and the rows returned by the real DuckDB over the FROM "
        "expression of the real QueryHandler are compared with the model."
    ),
    level_note="proof; one clause (exactly-once after reconciliation) is violated by the code: witness + partial theorem + harness monitor",
    technique="Lean 4: finite abstraction + simulation lemma for an interpreter of the regenerated step list, obligations by `decide` over generated terms; differential correspondence under fault injection (real Migrator, LocalBackend, SQLite, DuckDB)",
    factgen=True,
    clockify=["internal/tiering/metadata.go"],
    hooks={"internal/tiering": "go/hooks/c12_tiering", "internal/license": "go/hooks/c12_license", "internal/api": "go/hooks/c12_api"},
    harnesses=[dict(name="c12", tags="verif duckdb_arrow", timeout=dict(quick=900, thorough=3000))],
    trusted_base=[
        "fault model: a failed step has no effect (SQLite statements and object Delete/rename are atomic); only the streaming copy has partial effects, and those stay in the '<path>.part' staging object (LocalBackend.WriteReader; S3/Azure uploads are atomic) which the '*.parquet' glob never matches; a crash stops the process before the mutation it hits",
        "one file at a time: other files of the measurement enter only through 'some row says hot' / 'some row says cold' at query time (both universally quantified); concurrent migrations of different files are independent because every mutation is keyed by path",
        "DuckDB read_parquet([globs]) returns the rows of every matching file once per matching glob (validated on every observation by running the real DuckDB)",
        "the 30 s tier cache of MetadataStore.GetTiersForMeasurement IS modelled (World.cache, TTL and invalidating mutators generated): C12_cache_coherent / C12_query_warm_eq_fresh / C12_query_visible transfer every visibility theorem to queries in the running process at any time; the harness issues `query` ops through the long-lived MetadataStore under a virtual clock (metadata.go clockified) before/after every kind of step",
        "several files: the reconcile loop visits every enumerated file (generated shape recLoopExhaustive: no break/return except ctx cancellation), which is what makes the per-file model sound; validated with the tracked file as hot orphan at the first/middle/last position among up to 6 other migrated files",
        "factgen resolves srcBackend/dstBackend/candidate.*Tier through FindCandidates' direction guard; hand-written shape expectations in go/factgen/cmd/c12",
    ],
    assumptions=[
        "the reconciliation-only clause is claimed inside reconcileWindow (48 h, extracted): FileSt.recent models migrated_at vs the window and an `age` event lets it expire; a hot orphan older than the window is NOT removed by ReconcileOrphanedFiles but by the next cycle, whose scan re-registers the hot object as hot (generated fact scanSkipsRegistered = false) and gets it re-migrated — C12_once_cycle proves exactly-once after every clean cycle with ageing anywhere in the history, and the harness ages migrated_at by 49 h after every crash point before cycle/reconcile/retry",
        "'finished' = the operation ran to completion without an injected fault: MigrateTier reports 1 migrated / 0 errors, ReconcileOrphanedFiles reports 0 errors; a migration that tolerated a failed source delete is not 'finished' until the reconciliation has run",
    ],
)
