SPEC = dict(
    id="C16",
    level_text="TODO",
    level_note="proof (partial - substitution exactness only)",
    technique="TODO",
    factgen=True,
    hooks={"internal/api": "go/hooks/c16_api"},
    harnesses=[dict(name="c16", tags="verif duckdb_arrow", timeout=dict(quick=900, thorough=3000))],
    trusted_base=[],
    assumptions=[],
)
