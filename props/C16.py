SPEC = dict(
    id="C16",
    level_text=(
        "PROVED (Lean 4, no bounds): substitution exactness of the SQL-to-storage-path rewrite on a token-level model. "
        "C16_subst_partial: for EVERY raw token stream ts (comments, arbitrary whitespace/newlines, string literals, quoted and "
        "bare names, any join prefix built from the 11 modifiers + LATERAL, CTEs, sub-queries, function bodies) whose prepared "
        "form (function-body FROMs masked, comments stripped, whitespace merged: `prep`) is the flattening of an annotated "
        "statement q of the grammar `Item` (table positions introduced by FROM/JOIN with db.measurement or bare / quoted names, "
        "annotated CTE-or-base; every other token inert), with and without the database header: "
        "rewrite hdr ts = unmask (flat (mapRefs hdr q)) - every base-table reference is replaced by its read_parquet call and "
        "every other token is unchanged - under the decidable carve-out Carve (no comma-join table positions, no "
        "IS DISTINCT FROM, the CTE registry the code builds agrees with the binder's scoping for every table position, names "
        "are not join keywords / skip-prefixed, a bare name is not followed by blanks + `.`/`(`, no db.table with the header) and "
        "outside the two early exits (the text `read_parquet` anywhere; the header-only single-table fast path). The proof goes "
        "through the four regex passes in the order of the source (pass lemma + per-site lemmas H1-H4). The full statement is "
        "FALSE of the current source: one kernel-evaluated witness per class that is still false of the source (C16_comma_join_/distinct_from_/cte_shadow_/fastpath_partial_witness); the classes fixed in /repo since (rp-text 56228b9, cte-quoted 73763cd, lateral-newline 00bd721, comment-last-byte 168cceb, fastpath-cr 002a8ca, table function in the fast path 7134395, with-newline 04fa395, JOIN/second-FROM fast-path variants d4e5686/53c9b19) are kept as C16_*_fixed theorems on their former witness inputs and kept as C16_with_newline_fixed). "
        "C16_cache_key (FULL, true since the fix /repo 12df811 `cacheKey := headerDB + NUL + sql`): the transform-cache key determines "
        "(header, sql) for ALL pairs of requests the gate accepts - any SQL text, header absent or matching validIdentifierPattern "
        "(hdrOK_noNul: such a header has no NUL; C16_cache_key_needs_header_gate shows the gate hypothesis is needed); the pre-fix "
        "construction is kept as C16_cache_key_old_witness; the harness keeps the collision probe live as a regression monitor. "
        "C16_facts_tied re-checks on every run that the five "
        "regex literals, skipPrefixes, fromKeywordFunctions, the sentinel, the cache-key construction, the fast-path literals and the "
        "ORDER and guards of the passes in convertSQLToStoragePaths[WithHeaderDB] are the ones the model was written for. "
        "NOT PROVED, only validated by the harness: that the token matchers of the model are what the regexes do on rendered "
        "text (diffed on every generated statement incl. a malformed token soup), that MaskFromKeywordsInFunctionBodies masks "
        "exactly the function-body FROMs, and the step from exact substitution to equal rows (hypothesis DuckCompositional of "
        "C16_same_rows) - exercised by running Arc's real query path and a plain DuckDB with one view per measurement on random "
        "datasets; that differential run is a search/validation, never a proof, and it finds two classes where DuckCompositional "
        "fails for Arc's replacement text (implicit table alias lost; name case)."),
    level_note="proof (partial - substitution exactness on the regex path under an explicit carve-out; DuckDB compositionality assumed; cache-key clause full since 12df811; 4 known-false rewrite classes witnessed, 8 former classes fixed in /repo and re-proved on their witnesses)",
    technique="Lean 4 proof over a token-level transcription of the regex rewrite (scan = leftmost non-overlapping matcher per pattern, CTE registry, masks, fast path, cache key); regenerated regex literals / pass order / cache-key construction; differential correspondence of the rewritten text and differential execution Arc-vs-DuckDB-with-views",
    factgen=True,
    hooks={"internal/api": "go/hooks/c16_api"},
    harnesses=[dict(name="c16", tags="verif duckdb_arrow", timeout=dict(quick=900, thorough=3000))],
    trusted_base=[
        "HYPOTHESIS DuckCompositional (inside C16_same_rows, never an axiom): replacing a base table by an expression producing the same rows preserves the statement's result. The harness shows it is FALSE for Arc's replacement text in two classes: a table referenced by its own name as column qualifier (`cpu.host` after `FROM cpu` became `FROM read_parquet(...)` without alias) and names whose case differs from the stored directory (DuckDB resolves views case-insensitively, the file system does not)",
        "DuckDB v1.5.x as linked into arc is the ground truth for results; reference = a separate in-memory DuckDB with one VIEW per measurement over exactly its stored files (read_parquet([files], union_by_name=true)), schema `prod` / `\"default\"` for db.measurement, header database = the schema bare names resolve in",
        "the Go regexp engine is not modelled: the model states per pattern the acceptance condition on tokens (Model/C16.lean header lists the correspondence relied upon: maximal word tokens, placeholders of masked literals are word-like, one whitespace token between words after strip+merge); validated on every generated statement, literals pinned by C16_facts_tied",
        "the annotation of a statement (which FROM/JOIN name is a CTE in scope, which comma continues a FROM list, which FROM is an operand keyword) is part of the quantified input of the theorems; the harness generator produces it together with the tokens",
        "Arc side of the differential = request gates (ValidateSQLRequest, header validation, cross-database check) + getTransformedSQLForParallel (transform cache included) + execution on the handler's DuckDB as executeQuery does (parallel executor when chosen; `No files found` = empty result); every 7th statement also goes through the real fiber route POST /api/v1/query and must agree on success/row count",
        "phase 0 rewrites (RewriteRegexToStringFuncs, time_bucket/date_trunc, LIKE reordering: C17) and partition pruning (C18) are the identity on the generated statements (no such functions, no time-literal predicates); tiering off; local storage backend",
    ],
    assumptions=[
        "comment bodies contain no parentheses, quotes or comment delimiters (the paren-depth scanner of MaskFromKeywordsInFunctionBodies runs before comments are stripped; nested comments / backslash escapes are C15)",
        "word, number, literal and quoted-identifier tokens are never adjacent in the rendered text (the lexer of the real code would glue them)",
        "DOUBLE cells are multiples of 0.25 (sums exact, no order-dependent rounding); rows compared as typed values, as sequences only when the statement orders completely",
        "the parallel-partition executor is reachable only with time predicates (C18) and is therefore not exercised; its merge (concatenation of per-partition results) is outside the model",
    ],
)
