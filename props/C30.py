SPEC = dict(
    id="C30",
    level_text=(
        "Lean 4 theorems over an executable model of decideForward / CanRouteLocally / RouteWrite / RouteQuery / "
        "registry getters / BuildHTTPRequest / doForward and the handlers' routing prologue, with the role set, the "
        "capability table (NodeRole.GetCapabilities), the registry predicates' roles, the marker name, the strip "
        "lists and doForward's Header.Set list REGENERATED from the source by factgen and consumed by `decide`. "
        "Proved for every registry content, header list, target choice and cluster size (World = arbitrary "
        "functions, no bound): C30_no_second_hop / C30_marked_never_forwarded (a marked request is never forwarded), "
        "C30_marker_set + C30_client_headers_stripped + C30_other_headers_preserved (outbound request carries exactly "
        "the forwarder's id as marker; stripped-class headers only from trusted sources), C30_incapable_never_local "
        "(router present), C30_capable_serves_locally (client headers irrelevant), C30_target_capable / "
        "C30_target_not_self (targets registered, healthy, capable), C30_forwarded_when_unmarked (liveness clause "
        "for unmarked requests and the roles the router targets), C30_hops_le_one (hops <= 1 and termination, even "
        "with inconsistent registries), C30_served_by_capable, C30_one_forward_served (exactly one hop under "
        "truthful role records). The model is diffed against the real functions and against the real fiber "
        "handlers (in-process nodes, forwards delivered by a RoundTripper) on every configuration of 1..4 nodes "
        "(4 roles x 3 writer states x healthy/unhealthy per node; node 0 = entry) x entry-router presence x "
        "write/query x client header variants; thorough tier enumerates every ordered configuration, quick tier "
        "every ordered 1..3-node configuration and 4-node configurations up to peer permutation."
    ),
    level_note=(
        "The 'otherwise forwarded' clause is proved for requests whose inbound marker is absent/empty (a client that "
        "sends the marker to an incapable node gets 508, the code's documented behaviour) and for peers of the roles "
        "the router targets (writer; reader or writer for queries): a healthy standalone peer is capable but never "
        "targeted (C30_standalone_peer_not_targeted_witness). Only the four handlers that carry the routing prologue "
        "are modelled; the harness probes query endpoints that have none."
    ),
    technique="Lean 4 proof over an executable routing model with regenerated capability/header tables; exhaustive differential correspondence (functions + real fiber handlers) over all 1..4-node configurations",
    factgen=True,
    exhaustive=True,
    hooks={"internal/api": "go/hooks/c30_api", "internal/cluster": "go/hooks/c30_cluster"},
    harnesses=[dict(name="c30", tags="verif duckdb_arrow", timeout=dict(quick=900, thorough=3000))],
    trusted_base=[
        "fasthttp header normalisation and Peek (first value) / VisitAll semantics; the harness feeds the model the header list exactly as the handler's VisitAll shows it",
        "net/http Header.Set/Add and CanonicalHeaderKey (modelled; factgen rejects non-canonical literals)",
        "Go map iteration order and the round-robin counters are abstracted to an arbitrary choice among the admissible targets; the op line carries the real choice and the model checks admissibility",
        "the in-process RoundTripper stands in for the network between nodes (installed through a //go:build verif hook on Router.httpClient)",
        "factgen's syntactic shape checks of decideForward, CanRouteLocally, RouteWrite/RouteQuery guards and the handlers' routing switch (no fall-through to localProcessing except the ErrLocalNodeCanHandle goto)",
    ],
    assumptions=[
        "node ids are non-empty (NewCoordinator generates one when unset): C30_hops_le_one needs the forwarder's id to be a non-empty marker; without it the one-hop bound still follows under truthful role records (C30_one_forward_served)",
        "a node's role is fixed for the life of the process, and the router's LocalNode is non-nil (NewCoordinator always sets it)",
        "every node of a cluster has the router wired into all four handlers (cmd/arc/main.go wires them together)",
    ],
)
