SPEC = dict(
    id="C15",
    level_text=("Tree at 73763cd. Lean 4 theorems over a byte-level model (List UInt8) of MaskStringLiterals / "
                "UnmaskStringLiterals (single-pass strings.NewReplacer) / stripSQLComments / scanSQLFeatures and a "
                "reference lexer SqlLex. Proved for ALL inputs: C15_mask_partition (masker segments partition the "
                "input), C15_strip_outside (stripSQLComments copies every byte outside ITS comment spans unchanged, "
                "one space per block span). The three clauses of the property are still FALSE of the code on 7 "
                "confirmed classes (one Lean witness theorem and one harness monitor each) and are proved on "
                "explicit decidable classes: C15_agree_partial (kClassM s = 0: the masker's segmentation — literals, "
                "quoted identifiers and the comments it copies through — IS SqlLex's; excluded: `$`/`e'` decided by "
                "the previous byte), C15_strip_agree_partial (kClassS t = 0: stripper "
                "comment spans = SqlLex's on literal-free text; excluded: `--` ended by CR, nesting), "
                "C15_roundtrip_partial (kClassP s = 0: no STR_/IDENT_ fragment OUTSIDE literals and quoted "
                "identifiers ⇒ unmask(mask s) = s, quoted identifiers with exact-match de-duplication and literals "
                "whose content spells a placeholder included). Only VALIDATED, not proved: the composition "
                "mask-then-strip on one string (monitored on every generated string) and SqlLex = DuckDB's lexer "
                "(generated select-lists are evaluated in DuckDB and must return the generator's expected column "
                "names and values). The model is diffed against the real functions on every string."),
    level_note="proof (partial): full statements are refuted by witnesses; partial theorems on decidable classes",
    technique="Lean 4 proofs over a byte-level model of the masker / unmasker / comment stripper and a reference lexer; regenerated placeholder formats, identifier de-duplication key, single-pass unmask shape and mask-before-strip call order; differential correspondence against the real functions; DuckDB as ground truth for token boundaries",
    factgen=True,
    hooks={"internal/api": "go/hooks/api_c15"},
    harnesses=[dict(name="c15", tags="verif duckdb_arrow", timeout=dict(quick=900, thorough=3000))],
    trusted_base=[
        "SqlLex (Arc/Model/C15.lean: lTok) is a hand-written copy of the token classes of DuckDB's Postgres-derived scanner ('..' with '' only, E'..' with backslash escapes, \"..\", $tag$..$tag$ with non-ASCII tags, -- to LF or CR, nested /* */, `$` and bytes >= 0x80 as identifier characters); it is validated, not proved, against DuckDB by evaluating generated select-lists",
        "adjacent-literal continuation ('a' <newline> 'b' is one constant for DuckDB) and the x'..'/b'..'/N'..'/U&'..' prefixes are treated as separate raw bytes + plain literal on both sides",
        "the Go ports of mSegs/lSegs/sSegs/kClass* in go/harness/c15/lex.go (used by the monitors) are tied to the Lean definitions by the per-string output diff",
        "Go strings.NewReplacer(...).Replace (leftmost position, first-listed matching key, no rescan) and strings.Index semantics as modelled by unmaskF / findMask / splitSub (validated by the diff, incl. a stream of arbitrary text/mask pairs)",
    ],
    assumptions=[
        "callers pass scanSQLFeatures(sql).hasQuotes / hasDashComment||hasBlockComment as the fast-path flags (the model's normalize does; factgen checks only the call order)",
    ],
)
