def _ins_after(s, anchor, code, what):
    if s.count(anchor) != 1:
        raise Exception("arrow_writer.go: expected exactly one %s (found %d)" % (what, s.count(anchor)))
    return s.replace(anchor, anchor + code)


def _trace_arrow_writer(src):
    """Adds tracing calls (go/hooks/c04_ingest/hook.go) at pattern-located positions of the CURRENT
    internal/ingest/arrow_writer.go; only ADDS code. A missing pattern raises = tie broken.
      * entry of writeColumnarInternal                      -> the raw []interface{} columns of the record
      * after the typing step (convertColumnsToTyped ok)    -> the typed batch that will be buffered
      * entry of writeTypedColumnarRaw                      -> the typed batch of a typed write
      * entry of WriteParquetColumnar                       -> are the schema columns of one length?
      * tryEnqueueFlush after queueDepth.Add(1)             -> counts enqueued flush tasks
      * flushWorker / periodicFlush unit of work            -> wrapped in verifC04GuardFlush, which is a plain
        call unless the harness parent switches VerifC04RecoverFlush on (the confirming CHILD runs with it off)."""
    s = src
    s = _ins_after(s, "func (b *ArrowBuffer) writeColumnarInternal(ctx context.Context, database string, record *models.ColumnarRecord, skipWAL bool) error {\n",
                   "\tverifC04TraceGeneric(database, record)\n", "writeColumnarInternal header")
    s = _ins_after(s, "\ttypedColumns.DedupTime = record.DedupTime\n",
                   "\tverifC04TraceTyped(database, record.Measurement, typedColumns, numRecords, true)\n", "DedupTime propagation")
    s = _ins_after(s, "func (b *ArrowBuffer) writeTypedColumnarRaw(ctx context.Context, database, measurement string, typedColumns *TypedColumnBatch, numRecords int, rawPayload []byte, skipWAL bool) error {\n",
                   "\tverifC04TraceTyped(database, measurement, typedColumns, numRecords, false)\n", "writeTypedColumnarRaw header")
    s = _ins_after(s, "func (w *ArrowWriter) WriteParquetColumnar(ctx context.Context, measurement string, columns map[string]interface{}, validity map[string][]bool, tagColumns []string, dedupTime bool, decimalCols map[string]config.DecimalSpec) ([]byte, error) {\n",
                   "\tverifC04TraceParquet(columns, validity)\n", "WriteParquetColumnar header")
    s = _ins_after(s, "\t\tb.queueDepth.Add(1)\n", "\t\tverifC04Enqueued()\n", "queueDepth.Add(1)")
    a = "\t\t\tb.flushRecordsAsync(task.ctx, task.bufferKey, task.database, task.measurement, task.records, task.recordCount)\n"
    if s.count(a) != 1:
        raise Exception("arrow_writer.go: flushWorker's flushRecordsAsync call not found")
    s = s.replace(a, "\t\t\tverifC04GuardFlush(\"flushWorker\", true, func() {\n\t" + a + "\t\t\t})\n")
    a = "\t\t\tb.flushAgedBuffers()\n"
    if s.count(a) != 1:
        raise Exception("arrow_writer.go: periodicFlush's flushAgedBuffers call not found")
    s = s.replace(a, "\t\t\tverifC04GuardFlush(\"periodicFlush\", false, func() {\n\t" + a + "\t\t\t})\n")
    return s


SPEC = dict(
    id="C04",
    level_text="(under construction)",
    technique="Lean 4 proof over a panic-explicit executable model of the validate -> convert -> buffer -> merge -> sort -> schema pipeline; regenerated guard/limit facts; differential correspondence through the real fiber handlers with a real ArrowBuffer (sequences of requests to one server instance) and child-process confirmation of flush-goroutine crashes",
    factgen=True,
    hooks={"internal/ingest": "go/hooks/c04_ingest", "internal/api": "go/hooks/c04_api"},
    rewrite=[("internal/ingest/arrow_writer.go", _trace_arrow_writer)],
    harnesses=[dict(name="c04", tags="verif duckdb_arrow", timeout=dict(quick=900, thorough=3000))],
    trusted_base=[],
    assumptions=[],
)
