def _ins_after(s, anchor, code, what):
    if s.count(anchor) != 1:
        raise Exception("arrow_writer.go: expected exactly one %s (found %d)" % (what, s.count(anchor)))
    return s.replace(anchor, anchor + code)


def _trace_arrow_writer(src):
    """Adds tracing calls (go/hooks/c04_ingest/hook.go) at pattern-located positions of the CURRENT
    internal/ingest/arrow_writer.go; only ADDS code. A missing pattern raises = tie broken.
      * entry of writeColumnarInternal                      -> the raw []interface{} columns of the record
      * after the typing step (convertColumnsToTyped ok)    -> the typed batch that will be buffered
      * entry of writeTypedColumnarRaw                      -> the typed batch of a typed write
      * entry of WriteParquetColumnar                       -> are the schema columns of one length?
      * tryEnqueueFlush after queueDepth.Add(1)             -> counts enqueued flush tasks
      * flushWorker / periodicFlush unit of work            -> wrapped in verifC04GuardFlush, which is a plain
        call unless the harness parent switches VerifC04RecoverFlush on (the confirming CHILD runs with it off)."""
    s = src
    s = _ins_after(s, "func (b *ArrowBuffer) writeColumnarInternal(ctx context.Context, database string, record *models.ColumnarRecord, skipWAL bool) error {\n",
                   "\tverifC04TraceGeneric(database, record)\n", "writeColumnarInternal header")
    s = _ins_after(s, "\ttypedColumns.DedupTime = record.DedupTime\n",
                   "\tverifC04TraceTyped(database, record.Measurement, typedColumns, numRecords, true)\n", "DedupTime propagation")
    s = _ins_after(s, "func (b *ArrowBuffer) writeTypedColumnarRaw(ctx context.Context, database, measurement string, typedColumns *TypedColumnBatch, numRecords int, rawPayload []byte, skipWAL bool) error {\n",
                   "\tverifC04TraceTyped(database, measurement, typedColumns, numRecords, false)\n", "writeTypedColumnarRaw header")
    s = _ins_after(s, "func (w *ArrowWriter) WriteParquetColumnar(ctx context.Context, measurement string, columns map[string]interface{}, validity map[string][]bool, tagColumns []string, dedupTime bool, decimalCols map[string]config.DecimalSpec) ([]byte, error) {\n",
                   "\tverifC04TraceParquet(columns, validity)\n", "WriteParquetColumnar header")
    s = _ins_after(s, "\t\tb.queueDepth.Add(1)\n", "\t\tverifC04Enqueued()\n", "queueDepth.Add(1)")
    a = "\t\t\tb.flushRecordsAsync(task.ctx, task.bufferKey, task.database, task.measurement, task.records, task.recordCount)\n"
    if s.count(a) != 1:
        raise Exception("arrow_writer.go: flushWorker's flushRecordsAsync call not found")
    s = s.replace(a, "\t\t\tverifC04GuardFlush(\"flushWorker\", true, func() {\n\t" + a + "\t\t\t})\n")
    a = "\t\t\tb.flushAgedBuffers()\n"
    if s.count(a) != 1:
        raise Exception("arrow_writer.go: periodicFlush's flushAgedBuffers call not found")
    s = s.replace(a, "\t\t\tverifC04GuardFlush(\"periodicFlush\", false, func() {\n\t" + a + "\t\t\t})\n")
    return s


SPEC = dict(
    id="C04",
    level_text=(
        "PARTIAL, with known findings. Model: Arc/Model/C04.lean, the validate -> convertColumnsToTyped -> signature / "
        "flushOnSchemaChangeLocked -> buffer -> size trigger / FlushAll -> mergeBatches -> sort / slice -> getSchema -> "
        "AppendValues / NewRecord pipeline over SEQUENCES of requests to one server, with every Go operation of that code that "
        "can panic (type assertion in mergeBatches, name[0] in getSchema/inferSchema, col[idx] in applyPermutation, valid[idx] in "
        "sortTypedColumnBatchByKeys, AppendValues length check, array.NewRecord row check, envHeader[:3+len(db)] in "
        "AppendRawWithMeta) an explicit `Except Site` step, guarded or not according to facts regenerated from the current source; "
        "a panic on the request goroutine is a 500 from fiber's recover middleware (rows extracted for the synchronous flush are "
        "lost), a panic on a flush goroutine is the death of the process. After the repairs 1d10738, d29da22, 3fc3856 the NO-PANIC "
        "clause is proved for ALL request sequences, buffer sizes and WAL settings: C04_full_untyped (unconditional for requests "
        "without typed records: generic msgpack incl. batch/array/row format, line protocol; any names, types, ragged columns) and "
        "C04_partial (with typed records, under the explicit decidable producer contract CleanReq: the typed batches built by "
        "parsers outside the model - typed msgpack path, TLE, CSV, Parquet - have columns of one length; monitored on the real code "
        "as ragged-typed-batch, never fired); supporting: C04_convert_even, C04_empty_name_rejected, C04_time_field_rejected, "
        "C04_envelope_safe (+ C04_envelope_limits_tied). The other two clauses are FALSE of the current tree (known findings): "
        "C04_reject_stores_nothing_witness / _witness_import ([good, bad] answered 500 with the first record stored; import answered "
        "500 because FlushAll failed on another buffer), C04_names_witness_underscore_dropped, "
        "C04_names_witness_underscore_conflict_rows_lost (`_x` changes type: both requests 204, all rows of the buffer dropped by "
        "the failed merge); proved instead C04_reject_by_validation_unchanged, C04_reject_stores_nothing_partial (single record, no "
        "FlushAll), C04_names_partial (every non-`_`, non-empty column of a flushed batch is in the written schema), "
        "C04_names_typechange, and by `decide` over the regenerated facts C04_facts_tied / C04_signature_skips_tied. Flush-goroutine "
        "crashes are searched by re-running sequences in a CHILD PROCESS that runs the unmodified code (the three crashes of round "
        "1 are fixed; their monitors stay live). ONLY VALIDATED (search, no proof): gzip/zstd decoders, the msgpack wire decoder "
        "(C02), the line-protocol tokenizer (C01), encoding/csv, the arrow-go Parquet reader, the TLE parser, fasthttp/fiber; their "
        "outcome enters the model as `pre` (rejected before buffering) and as the decoded records that reached the buffer layer "
        "(observed through tracing hooks); for CSV/Parquet the 4xx of the parser stage is taken from the observed status; panics "
        "inside those libraries that the recover middleware turns into a 500 are recorded as notes (evidence extra.library_panics). "
        "Out-of-memory behaviour is not expressible."),
    level_note="proved for the modelled validate -> convert -> buffer -> merge -> schema pipeline; decompressors, CSV/Parquet/TLE/msgpack/LP parsers and fasthttp are outside the model (harness stream there is search only)",
    technique="Lean 4 invariant proof over a panic-explicit executable model of the ingest pipeline; regenerated guard/limit facts; differential correspondence through the real fiber handlers + real ArrowBuffer (sequences of requests to one server instance) with child-process confirmation of flush-goroutine crashes",
    factgen=True,
    hooks={"internal/ingest": "go/hooks/c04_ingest", "internal/api": "go/hooks/c04_api"},
    rewrite=[("internal/ingest/arrow_writer.go", _trace_arrow_writer)],
    harnesses=[dict(name="c04", tags="verif duckdb_arrow", timeout=dict(quick=900, thorough=3000))],
    trusted_base=[
        "library stages are oracles: decompression, msgpack/LP/CSV/Parquet/TLE decoding produce `pre` and the records; the harness obtains them from the real decoders (oracle calls + tracing hooks added by a textual overlay rewrite that only ADDS calls)",
        "getColumnSignature's textual `name:type,` join is treated as injective on the set of (name,type) entries (names containing ',' or ':' are not generated in model-compared sequences)",
        "mergeBatches' first-seen typing is characterised pairwise (a failing assertion exists iff two batches give one name two Go types; names are unique per batch because they are Go map keys)",
        "array.NewRecord's check depends on Go map order: the model reports the panic whenever some order panics (Site.possibleOnly); such flushes are compared as `mis` and end the sequence",
        "single-threaded request order: one request at a time, asynchronous flushes complete before the next request (the harness waits for the worker); data races between concurrent requests are outside C04's quantifier",
        "decimal columns are not configured (default deployment); default sort keys = [time]",
        "the harness installs fiber's recover middleware itself (same package, same options as api.NewServer; fact handlerPanicsRecovered is regenerated from NewServer)",
    ],
    assumptions=[
        "a flush-goroutine crash is reported only when a child process running the unmodified code dies (exit 2 with a Go panic trace); the parent's recover around the flush goroutines exists only to keep the harness alive",
    ],
)
