SPEC = dict(
    id="C22",
    level_text="Lean 4 theorems over an executable model of ClusterFSM (all 29 command types, every secondary index, snapshot, restore with its own validation and index rebuild): C22_batch_atomic (a batch is refused without effect or equals its ops applied one by one; all states/indexes/op lists), C22_files_index_partial / C22_restore_manifest_partial (filesByDB agrees with files, and node+manifest parts survive snapshot+restore, for every history incl. invalid commands and restores anywhere, outside the carve-out 'Update with empty database'), C22_replay_manifest_partial (replay from a snapshot after any prefix = replay from empty, manifest+node parts), C22_cascade_indexes_complete (every RBAC child is listed in its parent's traversal index, all histories); witnesses C22_files_index_witness, C22_restore_files_witness, C22_replay_files_witness, C22_restore_token_witness, C22_replay_token_witness for the two defect classes found on the real code; C22_dispatch_tied / C22_apply_pure / C22_validators_tied re-prove by `decide` over facts regenerated from the current source that Apply dispatches as modelled, reaches no clock/random/OS call, and pairs validators as modelled. The model is diffed line by line (primaries AND indexes, after every command, after snapshot+restore at every prefix, and on replays from snapshots) against the real Apply/Snapshot/Persist/Restore.",
    level_note="PROVED: dispatch/purity/validator ties; batch all-or-nothing (all inputs); filesByDB agreement, restore fidelity and replay-from-snapshot for the manifest + node parts (partial: carve-out 'Update with empty database'; full for the patched function: C22_repaired_files_index_full); completeness of the five RBAC traversal indexes (C22_cascade_indexes_complete, all histories); witnesses for both defect classes (C22_*_witness). VALIDATED ONLY (harness monitors on the real FSM, exhaustive short sequences + random histories, not proved): soundness direction of the token/RBAC indexes (tokensByName, tokensByPrefix, organizationsByName, teamsByOrg, membershipsByPair …), restore fidelity and replay-from-snapshot for the token/RBAC part. Known findings: keys index:filesByDB-empty-db, restore:filesByDB-empty-db, replay-diverges:filesByDB-empty-db, restore:token-name-unvalidated, replay-diverges:token-name-unvalidated",
    technique="Lean 4 invariant proofs (induction over histories with restores) over an executable FSM model; regenerated dispatch/purity/validator facts; differential correspondence on the real FSM incl. snapshot/persist/restore",
    factgen=True,
    hooks={"internal/cluster/raft": "go/hooks/raft"},
    harnesses=[dict(name="c22", timeout=dict(quick=900, thorough=3000))],
    trusted_base=[
        "encoding/json round-trip (Persist → Restore) is the identity on the primary maps: modelled as identity, validated on every snapshot by the harness",
        "sync.RWMutex makes each Apply one atomic step; hashicorp/raft delivers committed entries in order with strictly increasing indexes",
        "Go map iteration order is unobservable in the cascades (model iterates in key order; the harness runs with Go's randomised order and a peer FSM)",
        "tokensByPrefix slices are compared as multisets (nothing reads their order; Restore rebuilds them in map order)",
        "strings in the harness universe are valid UTF-8; times are whole UTC seconds or the zero time",
    ],
    assumptions=[
        "log indexes are < 2^63 (int64(logIndex) does not wrap)",
    ],
    exhaustive=True,
)
