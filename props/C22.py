SPEC = dict(
    id="C22",
    level_text="Lean 4 theorems over an executable model of the CURRENT ClusterFSM (all 29 command types, every secondary index, snapshot, restore with its own validation and index rebuild), full strength for every history (any commands incl. invalid/duplicate/out-of-order at any log indexes, snapshot+restore anywhere): C22_deterministic, C22_batch_atomic (a batch is refused without effect or equals its ops applied one by one), C22_files_index (filesByDB agrees exactly with files, empty database included), C22_restore_manifest and C22_replay_manifest (restore(snapshot s) = s and replay from a snapshot after ANY prefix = replay from empty, for the manifest and node parts), C22_cascade_indexes_complete (every RBAC child is listed in its parent's traversal index). For histories with strictly increasing log indexes (what Raft delivers): C22_token_indexes (tokensByName and tokensByPrefix agree exactly with tokens, names unique, every stored token passes validateTokenEntry) and C22_restore_tokens (snapshot+restore reproduces tokens, tokensByName, tokensByPrefix). C22_membership_indexes_agree: tokenMembershipsByPair/ByToken/ByTeam agree exactly (both directions) with the membership records through add/remove and the team, organization and token cascades and across restore. C22_dispatch_tied / C22_apply_pure / C22_validators_tied re-prove by `decide` over facts regenerated from the current source that Apply dispatches as modelled, reaches no clock/random/OS call, pairs validators as modelled, validates a changed token name and indexes every database. C22_prefix_*_witness keep the two pre-fix defect classes as statements about explicitly named pre-fix functions. The model is diffed line by line (primaries AND indexes, after every command, after snapshot+restore at every prefix, and on replays from snapshots) against the real Apply/Snapshot/Persist/Restore; all property monitors (index agreement for all ten indexes, restore fidelity, replay divergence, batch atomicity, peer determinism) are live and silent.",
    level_note="VALIDATED ONLY (harness monitors on the real FSM after every command and every restore — all ten indexes recomputed from the primaries, RBAC orphans, restore/replay divergence; exhaustive short words incl. a membership alphabet over 2 teams x 2 tokens, directed multi-team/multi-token cascades, random membership-heavy histories; not proved): soundness direction of organizationsByName, teamsByOrg, rolesByTeam, measurementPermsByRole and restore/replay fidelity of the RBAC maps",
    technique="Lean 4 invariant proofs (induction over histories with restores) over an executable FSM model; regenerated dispatch/purity/validator facts; differential correspondence on the real FSM incl. snapshot/persist/restore",
    factgen=True,
    hooks={"internal/cluster/raft": "go/hooks/raft"},
    harnesses=[dict(name="c22", timeout=dict(quick=900, thorough=3000))],
    trusted_base=[
        "encoding/json round-trip (Persist → Restore) is the identity on the primary maps: modelled as identity, validated on every snapshot by the harness",
        "sync.RWMutex makes each Apply one atomic step; hashicorp/raft delivers committed entries in order with strictly increasing indexes",
        "Go map iteration order is unobservable in the cascades (model iterates in key order; the harness runs with Go's randomised order and a peer FSM)",
        "tokensByPrefix slices are compared as multisets (nothing reads their order; Restore rebuilds them in map order)",
        "strings in the harness universe are valid UTF-8; times are whole UTC seconds or the zero time",
    ],
    assumptions=[
        "log indexes are < 2^63 (int64(logIndex) does not wrap)",
    ],
    exhaustive=True,
)
