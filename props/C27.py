import re

_METHODS = [
    ("MarkInFlight", "path"), ("RecordProgress", "path"), ("MarkSynced", "path"),
    ("MarkConflicted", "path"), ("MarkFailed", "path"), ("MarkSkipped", "path"),
    ("RecoverInFlight", '""'), ("TrackBatch", '""'),
]


def _hook_ledger(src):
    """insert `verifStep("<Method>", <path>)` as the first statement of each state-changing Ledger
    method (step / crash points of the harness). A missing method is a broken tie."""
    for name, arg in _METHODS:
        pat = re.compile(r"(func \(l \*Ledger\) " + name + r"\([^)]*\) [^{\n]*\{\n)")
        ms = pat.findall(src)
        if len(ms) != 1:
            raise Exception("Ledger.%s: expected exactly one declaration, found %d" % (name, len(ms)))
        src = pat.sub(lambda m: m.group(1) + '\tverifStep("%s", %s)\n' % (name, arg), src, count=1)
    return src


SPEC = dict(
    id="C27",
    level_text=(
        "Lean 4 theorems over an executable model of ledger + agent + receiver + reconciler (digest abstract, "
        "collision-freeness a HYPOTHESIS): C27_transitions — for EVERY agent run (any ledger/hub state, batch size, "
        "hub cap, crash point, per-call fault script) every entry the run appends to the ledger's transition log is an "
        "edge of the table of the method that wrote it, never out of `synced`, into `synced` only via MarkSynced; the "
        "table is the one factgen regenerates from the SQL literals of ledger.go (C27_table_tied, "
        "C27_transitions_table by `decide`; C27_ack_sites: MarkSynced is called only on reconcile-present / "
        "Done(); C27_recover_every_pass: Agent.Run itself calls RecoverInFlight first, unconditionally, on every pass — so "
        "the model does not distinguish a fresh Agent from a long-lived one; C27_stale_from_candidates: confirmPresent "
        "forgets only paths drawn from the checked candidates; C27_receipt_before_exists: Receive checks the compacted "
        "receipt before file existence — used by the lemma `stamp_step`: a compaction job's stamp survives every upload / "
        "reconcile between the mark and the deferred source deletion). Hub object of one (spoke,path) under ALL histories of Receive calls with arbitrary offset/body "
        "(= all transport faults and spoke behaviours), reconciles, compactions, sweeps, deletions: C27_hub_content "
        "(final bytes = spoke bytes), C27_synced_sound (an acknowledgment implies the hub holds identical content or "
        "the compacted receipt, and keeps holding it until a genuine removal / foreign writer), C27_hub_once_partial "
        "(at most one promote) under the carve-out `noOrphanCompact`; C27_hub_once_witness is the FINDING (index "
        "write fails after promote, hub compaction consumes the unreceipted file, the retry is stored again). "
        "C27_terminates is proved for the per-file retry loop (any hub answers; attempts cap, absorbing end states); "
        "that every pending row is attempted in each fault-free pass (paging/splitting) and the composition of the "
        "hub-object theorems with the agent program are validated, not proved: the real Agent + SQLite Ledger + "
        "Receiver + HubIndex + Reconciler are diffed against the model (ledger rows, trigger-recorded transition log, "
        "hub files/staging/.part/receipts, run counters) on a fault x crash grid (each cancelled pass continued both on the SAME long-lived Agent and "
        "as a restarted process), all 64 mixed 3-entry reconcile batches (no / fresh / stale / compacted receipt in every "
        "order), a compaction-window grid (mark … redeliveries / passes … source deletion … redeliveries / passes) and random histories of <= 6 runs, the fault-free closing passes running on the same Agent or a fresh one, and every clause is monitored directly on the real code."
    ),
    level_note="proof (partial): hub_once only under carve-out (finding); terminates per file; world-level composition validated by correspondence",
    technique="Lean 4 invariant proofs over an executable model of ledger + agent + receiver + reconciler; transition table regenerated from the SQL literals; differential correspondence of real Agent/Ledger(SQLite)/Receiver/HubIndex under scripted faults and crashes",
    factgen=True,
    hooks={"internal/edgesync": "go/hooks/c27_edgesync"},
    rewrite=[("internal/edgesync/ledger.go", _hook_ledger)],
    harnesses=[dict(name="c27", timeout={"quick": 600, "thorough": 2400})],
    trusted_base=[
        "SHA-256 collision freedom is a hypothesis of C27_hub_content / C27_synced_sound (the model driver uses the identity as digest)",
        "SQLite executes each guarded UPDATE atomically; a spoke crash is modelled as: no ledger write and no transport call after the crash point (implemented by cancelling the agent's context at a step hook), not as a torn SQLite write",
        "LocalBackend: WriteReader/AppendReader write through `<path>.part` and rename atomically (hub crash mid-promote is out of scope: the property quantifies over spoke restarts and hub errors)",
        "transfers are serialised (MaxConcurrent=1) in the harness; concurrent transfers of different paths touch disjoint rows and hub objects",
        "the loop-back transport stands for HTTPTransport + api handler (status mapping not exercised); hub-side index-write failure is injected by cancelling the hub request context after promote",
        "path immutability on the spoke (documented precondition of Ledger.Track): a path's bytes never change",
    ],
    assumptions=[
        "environment events (files vanish / are compacted / planted) happen between agent runs; a mid-run event is equivalent to a crash-split run",
        "air-gap states (exported) and operator requeue/dismiss appear only in the transition table theorems, not in the agent model",
    ],
)
