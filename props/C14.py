SPEC = dict(
    id="C14",
    level_text=(
        "After the round-2 repairs (/repo 12df811, 02701ef..64dff5c) the search harness is silent on HEAD: real fiber routes POST "
        "/api/v1/query, /query/arrow, /query/estimate, GET /query/:measurement, GET /measurements, SHOW; real ValidateSQLRequest + "
        "header rules + checkQueryPermissions with a recording RBAC checker granting exactly ONE database + "
        "getTransformedSQL[ForParallel] + the real sandboxed DuckDB over a temp storage root with canary rows in the unauthorised "
        "databases; 27 generator families incl. every dollar tag of length <= 3, every table function of the linked DuckDB, quoted "
        "skip-prefix names, placeholder look-alikes, the two-principal transform-cache scenario. All 20 formerly confirmed bypass "
        "classes (known_findings.jsonl status fixed) keep their monitors armed. PROVED in Lean 4, compositionally: (C) "
        "C14_rewrite_subset_checked / _hdr - for an ABSTRACT regex matcher (findAll a parameter, i.e. every regex semantics), abstract "
        "normaliser, splice and case folding, every (database, measurement) the rewrite turns into a read_parquet path IS one of the "
        "permission-checked pairs (plain membership since the case-exact seen key) or the inert sentinel, both functions modelled as "
        "maps/filters over the match lists exactly as the code structures them (raw vs validated resolve, seen keys as concatenated "
        "strings, CTE exclusion, header substitution, short-circuits, sequential passes over spliced text, pre-passes, fast path); "
        "side conditions that are facts about regex semantics stay explicit hypotheses (StableNoHdr / StableHdr: a later pass finds "
        "only references the same pattern finds in the original text and the two look-aheads agree; captures contain no '.'; "
        "pre-passes idle; FastAgrees for the guarded fast path). The one remaining code-level difference (isFunctionCallAt vs "
        "isDotOrCallAt blank sets) has C14_lookahead_witness and is a near-miss only (DuckDB's parser rejects it). (B) C14_validated, "
        "C14_denylist_complete over DuckDB token lists with the regenerated denylist. (R) C14_repairs_in_place: the structural fact of "
        "every repair regenerated from the source; historical witnesses are theorems about the OLD parameter value "
        "(C14_header_cte_gate_fixed, C14_fastpath_fixed, C14_casefold_fixed, C14_cache_key_prefix_collision_witness) or _fixed "
        "evaluations of the byte-level transcription (C14_lexical_bypasses_fixed, C14_dollar_tag_masked, C14_denylist_gap_closed); "
        "C14_cache_key_injective. (D) DuckDB's read set and (A) lexical agreement validator/DuckDB on the decidable class inK (now "
        "only: no nested/unterminated block comment, no identifier + line break + '(', no pre-pass trigger word) are HYPOTHESES of "
        "C14_partial, never axioms. The byte-level transcription of masker / stripper / validator / extractor is diffed line by line "
        "against the real code on every generated ASCII statement (decision of ValidateSQLRequest + validateHeaderDatabase + "
        "hasCrossDatabaseSyntax and the exact list of pairs the real checkQueryPermissions hands to the RBAC checker). NOT diffed "
        "against Lean: the rewritten text (monitored against the checked set), the unmask steps, SHOW / listing endpoints."
    ),
    level_note="proof (partial, compositional: DuckDB read-set, lexer agreement on inK and regex-semantic side conditions are hypotheses); no open finding on HEAD",
    technique="Lean 4: abstract-matcher refinement proof (maps/filters over match lists, de-duplication key injectivity), token-level validation theorems over a regenerated denylist, byte-level executable transcription of mask/strip/validate/extract with hand-compiled RE2 matchers diffed against the real code; search harness executing every accepted statement on the real query path against a sandboxed DuckDB with canary data and DuckDB's own parse tree (json_serialize_sql) as read-set oracle",
    factgen=True,
    hooks={"internal/api": "go/hooks/c14_api"},
    harnesses=[dict(name="c14", tags="verif duckdb_arrow", timeout=dict(quick=900, thorough=3000))],
    trusted_base=[
        "DuckDB v1.5.5 as linked into arc: executes the statements; its parser (json_serialize_sql on a separate un-sandboxed connection, never executing) names the table functions / replacement scans of the executed text for the read-set monitor",
        "(D) a single SELECT without file-reading table functions and without strings in table position reads only files named by read_parquet calls in its text - hypothesis hD of C14_partial, validated by the canary monitor only",
        "(A) on the class inK the validator's lexing agrees with DuckDB's - hypothesis hA of C14_partial (subject of C15), validated by the search only",
        "side conditions of (C) are hypotheses validated by the monitors on the real rewrite: captures of the reference regexes contain no '.', a later rewrite pass never matches inside text an earlier pass spliced (storage root without blanks/keywords), pre-passes are the identity without their trigger substrings (regenerated)",
        "the recording RBAC checker replaces RBACManager.CheckPermissionsBatch (interface api.RBACChecker); index alignment of the batch results is C20's subject",
        "monitor keys carry the generator family; random compositions are attributed by mechanism + lexical features (go/harness/c14/main.go attribute)",
        "string-level model scope: ASCII statements without EXTRACT/SUBSTRING/TRIM/OVERLAY (MaskFromKeywordsInFunctionBodies = id); Go's Unicode ToLower / TrimSpace are modelled on ASCII only",
    ],
    assumptions=[
        "LocalBackend storage root; no tiering, no parallel partition executor (paths are compared when it is used)",
        "measurement names on disk start with a letter (isValidMeasurementName), so the fast path's digit-leading table names name no stored data",
    ],
)
