SPEC = dict(
    id="C14",
    level_text=(
        "The property is FALSE of the current source: the search harness (real fiber routes POST /api/v1/query, /query/arrow, "
        "/query/estimate, GET /query/:measurement, GET /measurements, SHOW; real ValidateSQLRequest + header rules + "
        "checkQueryPermissions with a recording RBAC checker granting exactly ONE database + getTransformedSQL[ForParallel] + the real "
        "sandboxed DuckDB over a temp storage root with canary rows in the unauthorised databases) reads canaries / unchecked files in 13 classes (17 monitor keys, known/C14.jsonl): "
        "backslash before a closing quote, E'..\\\\', quote inside a line / block comment, comment marker inside a quoted identifier "
        "(ioDenylistNormalise strips the quotes), placeholder look-alike '__STR_1__' (first-occurrence unmask), non-ASCII blank between a "
        "reader name and '(' (DuckDB blank, not \\s), query('<sql in a string>') and parquet_full_metadata missing from the denylist, header + digit-glued FROM on the single-table fast path, header + CTE-name exclusion "
        "gated by the substring 'with ' on the rewrite side only (WITH<LF>x, named WINDOW read as a CTE), a subquery in the `where` "
        "parameter of GET /query/:measurement (checkQueryPermissions never runs there), and the lower-cased de-duplication key "
        "(CPU vs cpu). PROVED in Lean 4 instead, compositionally: (C) C14_rewrite_subset_checked / _hdr - for an ABSTRACT regex matcher "
        "(findAll a parameter, i.e. every regex semantics), abstract normaliser, splice and case folding, every (database, measurement) "
        "the rewrite turns into a read_parquet path is a permission-checked pair (same database; measurement equal up to the case the "
        "`seen` key folds) or the inert sentinel, with both functions modelled as maps/filters over the match lists exactly as the code "
        "structures them (resolve vs validated resolve, `seen` keys as concatenated strings, CTE exclusion, header substitution, "
        "read_parquet / no-from-no-join short-circuit, sequential passes over spliced text, pre-passes, `with ` gate, fast path); the "
        "side conditions the abstract argument needs are explicit hypotheses (StableNoHdr / StableHdr: a later pass finds only "
        "references the same pattern finds in the original text and the two look-aheads agree; captures contain no '.'; pre-passes "
        "idle; fast path not taken), and every place where the real code violates one of them has a witness theorem "
        "(C14_lookahead_witness, C14_header_cte_gate_witness, C14_window_alias_witness, C14_fastpath_witness, C14_casefold_witness, "
        "C14_measurement_endpoint_witness), the last four on the REAL regex semantics / regenerated call lists. (B) C14_validated, "
        "C14_denylist_complete over DuckDB token lists with the denylist names regenerated from the source (any case, bare or quoted, "
        "any position). (D) DuckDB's read set and (A) lexical agreement validator/DuckDB on the decidable class inK are HYPOTHESES of "
        "C14_partial (composition), never axioms; lexical witnesses outside K (C14_backslash_quote_witness, _quote_in_comment_, "
        "_estring_, _marker_in_ident_, _placeholder_) are evaluated on the byte-level transcription of the real masker / stripper / "
        "validator / extractor, which is diffed line by line against the real code on every generated statement (decision of "
        "ValidateSQLRequest + validateHeaderDatabase + hasCrossDatabaseSyntax, and the exact list of pairs the real "
        "checkQueryPermissions hands to the RBAC checker during the HTTP request). NOT diffed against Lean: the rewritten text / "
        "rewritten pair set (monitored against the checked set instead), SHOW / listing endpoints (decision tables in the harness only)."
    ),
    level_note="proof (partial, compositional; property false: 17 monitor keys on the unchanged tree; DuckDB read-set and lexer agreement are hypotheses)",
    technique="Lean 4: abstract-matcher refinement proof (maps/filters over match lists, de-duplication key injectivity), token-level validation theorems over a regenerated denylist, byte-level executable transcription of mask/strip/validate/extract with hand-compiled RE2 matchers diffed against the real code; search harness executing every accepted statement on the real query path against a sandboxed DuckDB with canary data and DuckDB's own parse tree (json_serialize_sql) as read-set oracle",
    factgen=True,
    hooks={"internal/api": "go/hooks/c14_api"},
    harnesses=[dict(name="c14", tags="verif duckdb_arrow", timeout=dict(quick=900, thorough=3000))],
    trusted_base=[
        "DuckDB v1.5.5 as linked into arc: executes the statements; its parser (json_serialize_sql on a separate un-sandboxed connection, never executing) names the table functions / replacement scans of the executed text for the read-set monitor",
        "(D) a single SELECT without file-reading table functions and without strings in table position reads only files named by read_parquet calls in its text - hypothesis hD of C14_partial, validated by the canary monitor only",
        "(A) on the class inK the validator's lexing agrees with DuckDB's - hypothesis hA of C14_partial (subject of C15), validated by the search only",
        "side conditions of (C) are hypotheses validated by the monitors on the real rewrite: captures of the reference regexes contain no '.', a later rewrite pass never matches inside text an earlier pass spliced (storage root without blanks/keywords), pre-passes are the identity without their trigger substrings (regenerated)",
        "the recording RBAC checker replaces RBACManager.CheckPermissionsBatch (interface api.RBACChecker); index alignment of the batch results is C20's subject",
        "monitor keys carry the generator family; random compositions are attributed by mechanism + lexical features (go/harness/c14/main.go attribute)",
        "string-level model scope: ASCII statements without EXTRACT/SUBSTRING/TRIM/OVERLAY (MaskFromKeywordsInFunctionBodies = id); Go's Unicode ToLower / TrimSpace are modelled on ASCII only",
    ],
    assumptions=[
        "LocalBackend storage root; no tiering, no parallel partition executor (paths are compared when it is used)",
        "measurement names on disk start with a letter (isValidMeasurementName), so the fast path's digit-leading table names name no stored data",
    ],
)
