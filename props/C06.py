SPEC = dict(
    id="C06",
    level_text=(
        "Lean 4 theorems over a byte-level (List UInt8) executable model of the WAL writer, file format, envelope and "
        "Reader.ReadAll, with an executable table-driven CRC-32/IEEE (C06_crc_table, C06_crc_check) and the msgpack "
        "decoder as a parameter: C06_roundtrip (ALL entry lists: reading an undamaged file returns exactly the appended "
        "entries that deserialise, in order), C06_truncate (ANY truncation offset returns exactly the completely written "
        "prefix), C06_rotation, C06_envelope / C06_raw_unambiguous, and for ANY single overwritten byte (position and "
        "value) C06_subsequence_stop (the full 'only appended entries, byte-for-byte, in append order' statement for a "
        "reader that stops at the first framing error) and C06_subsequence_partial (the same for the `continue` policy "
        "of the current source when the damaged byte is not a length byte). CRC detection is the explicit hypothesis "
        "CrcDetectsAt, never an axiom. The full statement is FALSE for the current source: C06_subsequence_full_witness "
        "(a corrupted length byte makes the reader resynchronise inside a payload and return an embedded entry that was "
        "never appended), confirmed on the real Reader.ReadAll and Recovery by the harness (finding keys "
        "fabricated-entry:ReadAll / fabricated-entry:Recover); C06_envelope_wrap_witness (uint16 wrap in ParseEnvelope "
        "panics the reader; key reader-panic:ReadAll). C06_current_reader_status ties the witness to the regenerated "
        "on-error policy of Reader.ReadAll. The model is diffed against the real Writer/Reader/Recovery on the clean "
        "file, every truncation offset and single-byte corruptions of every position of small logs."
    ),
    technique="Lean 4 induction proofs over a byte-level executable model of the WAL writer/reader (table-driven CRC-32 in Lean); regenerated constants, header field offsets and the reader's on-error policy; differential correspondence on every truncation offset and every single-byte corruption of small logs under a virtual clock",
    factgen=True,
    clockify=["internal/wal/wal.go"],
    harnesses=[dict(name="c06", timeout=dict(quick=900, thorough=3000))],
    exhaustive=True,
    trusted_base=[
        "msgpack library (Basekick-Labs/msgpack/v6) + parseColumnarEntry are a PARAMETER of the model (Cfg.dec); the harness measures it on the real reader for every payload that can reach the decoder (every CRC-valid frame at any offset of every file read)",
        "CRC-32 error detection is the explicit hypothesis CrcDetectsAt of the corruption theorems (its instances are decidable and evaluated in the non-vacuity examples); the Lean crc32 is proved equal to the table of the reflected IEEE polynomial and diffed bit-for-bit against hash/crc32 through the writer",
        "file system: a file is the byte string os.ReadFile returns; io.ReadFull semantics as modelled in readEntry; the crash model is truncation at a byte offset / one overwritten byte",
        "decoded entries are compared through a canonical rendering of the values the real reader returns (type-tagged, sorted keys); 'byte-for-byte identical payload' is observed up to msgpack decode-equivalence",
        "recovery across several files is modelled in file-name order; the real Recovery sorts by mtime (the harness sets strictly increasing mtimes)",
        "the writer runs under the overlay's virtual clock (clockified wal.go) so that timestamps and rotated file names are a function of the case",
    ],
    assumptions=[
        "appended entries are well-formed (Entry.WF: payload ≤ MaxWALPayloadSize, uint64 timestamp) — enforced by AppendRaw/AppendRawWithMeta and checked in the model's append functions",
        "Entry.Clean for round trip / truncation: no appended payload triggers the ParseEnvelope wrap-around panic (witnessed separately)",
    ],
)
