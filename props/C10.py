SPEC = dict(
    id="C10",
    level_text="TODO",
    technique="Lean 4 proof over an executable SQL three-valued-logic model of the delete handler; keep-filter generated from the SQL templates of delete.go; differential correspondence against the real DeleteHandler + DuckDB",
    factgen=True,
    harnesses=[dict(name="c10", tags="verif duckdb_arrow", timeout=dict(quick=900, thorough=3000))],
    trusted_base=[],
    assumptions=[],
)
