SPEC = dict(
    id="C10",
    level_text=(
        "Lean 4: for ALL datasets (any number of files/rows, typed nullable cells) and ALL predicates of the grammar "
        "(comparisons, AND/OR/NOT in Kleene logic, IN lists incl. NULL literals, LIKE, IS [NOT] NULL, boolean literals), "
        "over an executable model of delete.go (affected-file search, per-file COUNT/FILTER, whole-file branch, rewrite, "
        "both counters, request gates). The keep filters of the count query and of the rewrite are GENERATED from the SQL "
        "templates of the current delete.go; C10_claim proves for every template combination: the FULL statement "
        "(rows after = previous rows whose predicate is not TRUE, per file and overall; reported count = |before|-|after|; "
        "dry-run count = reported count) when both templates are `(p) IS NOT TRUE`, otherwise the _partial statement "
        "(carve-out: no row with a NULL predicate in an affected file) plus a kernel-evaluated refutation of the full one "
        "(C10_delete_witness, C10_dryrun_witness). C10_current_local/_remote instantiate it at what the source says NOW (`NOT (%s)` => partial + "
        "witness: rows whose predicate is NULL in an affected file are deleted and counted, the dry-run count differs). "
        "Unconditional for the current source: C10_count_agreeing_templates (count = rows that disappeared), "
        "C10_dry_inert, C10_rejected_inert. DuckDB's three-valued evaluation is a modelled library semantics, validated "
        "(not proved) by diffing the model against the real DeleteHandler + DuckDB on every run; harness monitors check the "
        "property clauses on the real results using DuckDB's own evaluation of the predicate."),
    technique="Lean 4 proof over an executable SQL three-valued-logic model of the delete handler; keep-filter generated from the SQL templates of delete.go; differential correspondence against the real DeleteHandler + DuckDB",
    factgen=True,
    harnesses=[dict(name="c10", tags="verif duckdb_arrow", timeout=dict(quick=900, thorough=3000))],
    trusted_base=[
        "DuckDB evaluates WHERE / FILTER / COPY(SELECT … WHERE) row by row with SQL three-valued logic as modelled by Arc.C10.eval (validated by the correspondence on every run, not proved)",
        "the Go-side renderer predicate-AST -> SQL text in go/harness/c10 (the model receives the AST, the handler the text)",
        "go/factgen/cmd/c10: classification of the template text (`%s` / `NOT (%s)` / `(%s) IS NOT TRUE`) and the check that the verb is fed by whereClause",
        "DOUBLE cells are restricted to multiples of 0.25 (exact in binary floating point); NaN/inf and non-ASCII collation are outside the validated space",
    ],
    assumptions=[
        "single request at a time (no concurrent writers/compaction on the measurement during the delete)",
        "every listed parquet file has the predicate's columns (a file lacking a column makes the per-file query fail and is reported in failed_files — not modelled)",
        "LocalBackend rewrite path exercised; the S3/Azure path shares the template (C10_current_remote) but is not executed",
        "validateWhereClause's keyword/function deny-lists are exercised only on accepted predicates",
    ],
)
