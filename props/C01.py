import re


def _virtual_now(src):
    """time.Now() -> verifclock.Now() in lineprotocol.go (the shared `clockify` leaves the original
    `time` import unused in this file, which does not compile; so this is a SPEC.rewrite)."""
    if "time.Now().UnixMicro()" not in src:
        raise ValueError("pattern time.Now().UnixMicro() not found in internal/ingest/lineprotocol.go")
    out = src.replace("time.Now()", "verifclock.Now()")
    m = re.search(r"^package\s+\w+.*$", out, re.M)
    return (out[:m.end()] + '\nimport verifclock "github.com/basekick-labs/arc/internal/verifclock"\n'
            + out[m.end():] + "\nvar _ = time.Second\n")


SPEC = dict(
    id="C01",
    level_text=(
        "Lean 4, byte level (List UInt8), over an executable transcription of parseBatchInternal / "
        "parseLineWithPrecision / splitOnDelimiter / parseMeasurementTags / parseFields / parseFieldValue / unescape / "
        "the precision switch / BatchToColumnar / convertColumnsToTyped. PROVED for ALL points of the line-protocol "
        "grammar inside the stated carve-outs (C01_line_partial): any measurement, tag keys/values, field keys over "
        "arbitrary bytes incl. UTF-8 and the escapable ',' ' ' '=' (escaped per InfluxDB rules), string values over "
        "arbitrary bytes incl. '\"' '\\\\' ',' ' ' '=', all five field types with every boolean spelling, optional "
        "timestamps over the whole int64 range, every precision, any legal spacing: parseLine(render p) = denote p. "
        "C01_batch_partial/_entry/_count: points interleaved with comments/blank lines joined by \\n give exactly the "
        "denotations in order (no drop/merge/split). C01_ts_us/ms/s/ns: exact conversion on all of int64 (ms/s: exact "
        "product iff it fits int64, else now; ns: Go truncation = floor for non-negative or whole-microsecond values, "
        "floor+1 otherwise, never overflows). C01_columnar_*: one ColumnarRecord per measurement, rows in order, row "
        "counts sum to the record count, each cell is the record's own value, null elsewhere. C01_typed_*: type-consistent "
        "columns keep values and null positions. C01_facts_*: the escape set, boolean spellings, delimiter/quote/suffix "
        "bytes and the precision switch of the CURRENT source are what the model uses (regenerated on every run). "
        "CARVE-OUTS with kernel-evaluated witnesses of the real defect: no '=' in tag/field keys (C01_keyeq_witness), no "
        "'\"' in measurement/tag/field-key (C01_quote_witness); additionally no '\\\\' outside string values (line protocol "
        "has no escape for it there) and, outside the image of the canonical renderer, raw backslashes in string values "
        "(C01_strbs_witness); mixed-type fields in one batch (C01_mixed_witness). ParseFloat is a parameter of the theorems "
        "(float fields: the stored value is ParseFloat of exactly the literal written). VALIDATED, not proved: that the "
        "Go code equals the model (differential run on every check, incl. an exact rational model of strconv.ParseFloat, "
        "bytes.TrimSpace, utf8.Valid, SanitizeUTF8), and the Arrow/Parquet encoding after convertColumnsToTyped; the HTTP "
        "handler itself is not run; an end-to-end stage (real parser -> BatchToColumnar -> real ArrowBuffer on a LocalBackend -> FlushAll -> Parquet read-back with arrow-go, sequences of 2-4 requests with key sets engineered to collide under naive joins) and a concurrency stage (one shared parser, 2-8 goroutines) are monitor-only validation."),
    technique="Lean 4 proof over a byte-level executable model of the line-protocol parser; regenerated escape/boolean/precision facts; differential correspondence against the real parser, BatchToColumnar and convertColumnsToTyped; ground-truth monitors",
    factgen=True,
    rewrite=[("internal/ingest/lineprotocol.go", _virtual_now)],
    hooks={"internal/ingest": "go/hooks/ingest_c01"},
    harnesses=[dict(name="c01", timeout=dict(quick=600, thorough=3000))],
    trusted_base=[
        "strconv.ParseFloat is a parameter `pf` of every theorem (the driver uses an exact rational re-implementation, diffed against the real one on every run)",
        "Go map semantics modelled as association lists with last-write-wins; canonical (sorted) comparison in the harness",
        "the Spec (Point, render = InfluxDB escaping rules, denote, WF) in lean/Arc/Spec/C01.lean is the reading of the property text; the Go generator in go/harness/c01 is an independent second implementation of the same renderer",
        "time.Now() replaced by the virtual clock in lineprotocol.go through an overlay rewrite (adds one import, changes no logic)",
        "Arrow/Parquet encoding of the typed columns, ArrowBuffer flushing and the HTTP handler are outside the model",
    ],
    assumptions=[
        "no decimal-column configuration for the measurement (convertColumnsToTyped's decimal branch is not modelled)",
        "the `simdutf` build tag is off (ValidateUTF8Bytes = utf8.Valid)",
        "float literals have at most 800 significant digits and exponents below 10000 (limits of Go's own decimal path that the rational model does not imitate)",
        "amd64 semantics for float64->int64 conversion of NaN/2^63 in toInt64 (mixed-type columns only)",
    ],
)
