def _clock_typed(src):
    """msgpack_typed.go uses package time only for the generated-timestamp time.Now(); route it to the
    virtual clock (core's clockify would leave the "time" import unused). Pattern counts are
    expectations: a refactor raises = tie broken."""
    if src.count("time.Now()") != 1 or src.count('\t"time"\n') != 1 or len(__import__("re").findall(r"\btime\.[A-Za-z]", src)) != 1:
        raise Exception("msgpack_typed.go: expected exactly one use of package time (time.Now())")
    s = src.replace("time.Now()", "verifclock.Now()")
    return s.replace('\t"time"\n', '\tverifclock "github.com/basekick-labs/arc/internal/verifclock"\n')


SPEC = dict(
    id="C02",
    level_text="TODO",
    technique="Lean 4 proof over an executable model of both decode paths (msgpack tree decoder, library boxing rules goBox, typed fast path, generic path + convertColumnsToTyped) for an abstract float semantics; regenerated constants/tables; differential correspondence of both paths on structure-aware MessagePack bodies",
    factgen=True,
    clockify=["internal/ingest/msgpack.go"],
    rewrite=[("internal/ingest/msgpack_typed.go", _clock_typed)],
    hooks={"internal/ingest": "go/hooks/ingest_c02"},
    harnesses=[dict(name="c02", timeout=dict(quick=900, thorough=3400))],
    trusted_base=[],
    assumptions=[],
)
