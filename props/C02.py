def _clock_typed(src):
    """msgpack_typed.go uses package time only for the generated-timestamp time.Now(); route it to the
    virtual clock (core's clockify would leave the "time" import unused). Pattern counts are
    expectations: a refactor raises = tie broken."""
    if src.count("time.Now()") != 1 or src.count('\t"time"\n') != 1 or len(__import__("re").findall(r"\btime\.[A-Za-z]", src)) != 1:
        raise Exception("msgpack_typed.go: expected exactly one use of package time (time.Now())")
    s = src.replace("time.Now()", "verifclock.Now()")
    return s.replace('\t"time"\n', '\tverifclock "github.com/basekick-labs/arc/internal/verifclock"\n')


SPEC = dict(
    id="C02",
    level_text=(
        "PARTIAL, with two findings. The full statement C02_full (for ALL byte strings b: observe(Decode typed=on b) = "
        "observe(Decode typed=off b)) is FALSE of the current tree: C02_full_witness_skip / C02_full_witness_dup are "
        "machine-checked counterexamples in the model and the harness reproduces both on the real code (keys below). "
        "Proved in Lean 4 for all inputs and any float semantics satisfying FloatLaws (float32->float64 widening commutes "
        "with int64 conversion and the range tests): C02_fallback_sound / C02_differs_only_on_hit (a typed miss IS the generic "
        "path); the per-class content of C02_hit_agrees — C02_valueColumn_agrees (int, float, string, bool and all-nil "
        "columns: any widths, nils anywhere, numeric cross-coercion, uint64>MaxInt64 and out-of-range floats), "
        "C02_timeColumn_agrees (unit from element 0 in both paths, scaling, wrap), C02_measurement_agrees, the five "
        "C02_*Elem_agrees; C02_roundtrip_leaf (byte decoder vs encoder at every leaf width); and by `decide` over tables "
        "regenerated from the current sources: C02_units_same (thresholds 1e10/1e13/1e16 and multipliers identical in "
        "normalizeTimestampColumns and decodeTimeColumnTyped), C02_accepted_kinds, C02_guards, C02_code_classes, C02_prealloc. "
        "NOT proved, only validated by the differential harness (0 disagreements): the map-level glue from the per-column "
        "theorems to C02_hit_agrees under the carve-out `Carve` (top-level/columns key handling, last-wins de-duplication, "
        "length check, generated time column), the container arms of the round trip, and that the tree-level definition of "
        "typedPath equals the streaming decoder. The model (tree decoder, goBox, typedPath, genericPath incl. batch/array/"
        "row dispatch) is diffed against the real tryDecodeColumnarTyped, Decode(off) and convertColumnsToTyped on every body."),
    level_note="row-format record contents are compared ON vs OFF on the real code by the monitor but not modelled (measurement + accept/reject only)",
    technique="Lean 4 proof over an executable model of both decode paths (msgpack tree decoder, library boxing rules goBox, typed fast path, generic path + convertColumnsToTyped) for an abstract float semantics; regenerated constants/tables; differential correspondence of both paths on structure-aware MessagePack bodies",
    factgen=True,
    clockify=["internal/ingest/msgpack.go"],
    rewrite=[("internal/ingest/msgpack_typed.go", _clock_typed)],
    hooks={"internal/ingest": "go/hooks/ingest_c02"},
    harnesses=[dict(name="c02", timeout=dict(quick=900, thorough=3400))],
    trusted_base=[
        "goBox = the boxing rules of github.com/Basekick-Labs/msgpack/v6 Unmarshal into interface{} (dynamic type per wire code, DecodeString accepting str/bin/nil keys, typed maps for a non-string first key incl. reflect panics, ext -1 = time.Time, unknown ext ids rejected, trailing bytes ignored) — read from the fork, stated separately, validated on every harness body, not proved",
        "Decoder.Skip succeeds exactly on well-formed values and DecodeXxx agree with the tree decoder under the PeekCode class tests (lets typedPath be a function of the decoded value tree)",
        "IEEE-754 / Go-on-amd64 conversions are the executable FloatSem instance of the driver only; theorems assume FloatLaws (three equations about float32 widening), which the harness exercises with float32 elements in int and time columns",
        "SanitizeUTF8 is a parameter of the theorems (both paths call the same Go function); the driver uses a transcription of utf8.ValidString + sanitizeUTF8SlowPath",
        "observation = Decode result + convertColumnsToTyped (the only step between a generic *ColumnarRecord and the shared buffer append in ArrowBuffer.Write); Write/FlushAll read-back is not repeated here (C01/C03 cover the buffer and flush)",
        "the generated timestamp is the virtual clock (time.Now in msgpack.go / msgpack_typed.go rewritten by the overlay), equal on both sides",
        "a panic inside msgpack.Unmarshal is reported as a rejection (E:unmarshal) in the model diff: the tree-level model cannot order such a panic before a later truncation",
    ],
    assumptions=[
        "no decimal columns configured (the handler disables the fast path otherwise: NewMsgPackHandler, api/msgpack.go)",
        "random bodies keep bin32 length claims below 64 KiB (the fork allocates and zeroes the CLAIMED bin size up front, up to 4 GiB per decode); larger claims only in the edge grid",
        "two megabyte-sized bodies at maxTypedPreallocElems / +1 are checked ON vs OFF on the real code but not sent to the model",
    ],
)
