def _clock_typed(src):
    """msgpack_typed.go uses package time only for the generated-timestamp time.Now(); route it to the
    virtual clock (core's clockify would leave the "time" import unused). Pattern counts are
    expectations: a refactor raises = tie broken."""
    if src.count("time.Now()") != 1 or src.count('\t"time"\n') != 1 or len(__import__("re").findall(r"\btime\.[A-Za-z]", src)) != 1:
        raise Exception("msgpack_typed.go: expected exactly one use of package time (time.Now())")
    s = src.replace("time.Now()", "verifclock.Now()")
    return s.replace('\t"time"\n', '\tverifclock "github.com/basekick-labs/arc/internal/verifclock"\n')


SPEC = dict(
    id="C02",
    level_text=(
        "PARTIAL (one known finding class). Proved in Lean 4 for ALL byte strings b and any float semantics satisfying "
        "FloatLaws (float32->float64 widening commutes with int64 conversion and the range tests): C02_full_partial — "
        "Carve b -> observe(Decode typed=on b) = observe(Decode typed=off b) — via C02_hit_agrees_partial (a typed hit "
        "inside Carve is accepted by the generic path with the same measurement, columns (type, values, null positions) and "
        "row count, up to the value of a generated time column; covers ignored and duplicate keys, last-wins de-duplication, "
        "non-array column values, the equal-length check, supplied or generated time) and C02_fallback_sound (a typed miss IS "
        "the generic path). Carve (decidable) excludes exactly: bodies that decode to a map in which a value the typed path "
        "only Skip()s — under a top-level str key other than m/columns/batch, or a non-array value inside a `columns` map — "
        "is an array, a map or an ext value. On that class the full statement is false: C02_full_witness_skip (model) and the "
        "harness (real code) show on != off; listed as known findings accept-differs:typed-Skip-vs-generic-Unmarshal:{error,panic}. "
        "Also proved: the per-class theorems (C02_valueColumn_agrees, C02_timeColumn_agrees, C02_measurement_agrees, "
        "C02_*Elem_agrees), C02_roundtrip_leaf (byte decoder vs encoder at every leaf width), C02_dup_nonarray_falls_back "
        "(regression of fixed finding d7052e6), and by `decide` over tables regenerated from the current sources: C02_units_same "
        "(thresholds 1e10/1e13/1e16 and multipliers identical in both files), C02_nonarray_dup_fallback, C02_accepted_kinds, "
        "C02_guards, C02_code_classes, C02_prealloc. Validated only (differential harness, 0 disagreements): that goBox is the "
        "library's boxing, that the tree-level typedPath equals the streaming decoder, the container arms of the round trip, "
        "and the IEEE instance of FloatSem."),
    level_note="row-format record contents are compared ON vs OFF on the real code by the monitor but not modelled (measurement + accept/reject only)",
    technique="Lean 4 proof over an executable model of both decode paths (msgpack tree decoder, library boxing rules goBox, typed fast path, generic path + convertColumnsToTyped) for an abstract float semantics; regenerated constants/tables; differential correspondence of both paths on structure-aware MessagePack bodies",
    factgen=True,
    clockify=["internal/ingest/msgpack.go"],
    rewrite=[("internal/ingest/msgpack_typed.go", _clock_typed)],
    hooks={"internal/ingest": "go/hooks/ingest_c02"},
    harnesses=[dict(name="c02", timeout=dict(quick=900, thorough=3400))],
    trusted_base=[
        "goBox = the boxing rules of github.com/Basekick-Labs/msgpack/v6 Unmarshal into interface{} (dynamic type per wire code, DecodeString accepting str/bin/nil keys, typed maps for a non-string first key incl. reflect panics, ext -1 = time.Time, unknown ext ids rejected, trailing bytes ignored) — read from the fork, stated separately, validated on every harness body, not proved",
        "Decoder.Skip succeeds exactly on well-formed values and DecodeXxx agree with the tree decoder under the PeekCode class tests (lets typedPath be a function of the decoded value tree)",
        "IEEE-754 / Go-on-amd64 conversions are the executable FloatSem instance of the driver only; theorems assume FloatLaws (three equations about float32 widening), which the harness exercises with float32 elements in int and time columns",
        "SanitizeUTF8 is a parameter of the theorems (both paths call the same Go function); the driver uses a transcription of utf8.ValidString + sanitizeUTF8SlowPath",
        "observation = Decode result + convertColumnsToTyped (the only step between a generic *ColumnarRecord and the shared buffer append in ArrowBuffer.Write); Write/FlushAll read-back is not repeated here (C01/C03 cover the buffer and flush)",
        "the generated timestamp is the virtual clock (time.Now in msgpack.go / msgpack_typed.go rewritten by the overlay), equal on both sides",
        "a panic inside msgpack.Unmarshal is reported as a rejection (E:unmarshal) in the model diff: the tree-level model cannot order such a panic before a later truncation",
    ],
    assumptions=[
        "no decimal columns configured (the handler disables the fast path otherwise: NewMsgPackHandler, api/msgpack.go)",
        "random bodies keep bin32 length claims below 64 KiB (the fork allocates and zeroes the CLAIMED bin size up front, up to 4 GiB per decode); larger claims only in the edge grid",
        "two megabyte-sized bodies at maxTypedPreallocElems / +1 are checked ON vs OFF on the real code but not sent to the model",
    ],
)
