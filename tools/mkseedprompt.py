#!/usr/bin/env python3
"""Write /var/tmp/seedprops/<pid><tag>.txt: seeding prompt for one property, listing prior seeded changes.
Usage: tools/mkseedprompt.py c d c01 c02 ...   (tag, source-tag-of-template, ids)"""
import json, glob, sys, re, os
tag = sys.argv[1]; ids = sys.argv[2:]
props = {json.loads(l)["id"]: json.loads(l) for l in open("/verif/properties.jsonl")}
for pid in ids:
    PID = pid.upper(); p = props[PID]
    tmpl = open(f"/var/tmp/seedprops/{pid}b.txt").read()
    head, rest = tmpl.split("Other people already produced the following changes", 1)
    tail = rest.split("\n\nFor each change i=1..2", 1)[1]
    prior = []
    for f in sorted(glob.glob(f"/verif/seeded/{PID}-*/meta.json")):
        prior.append("- " + json.load(open(f))["what"].strip().replace("\n", " "))
    txt = head + "Other people already produced the following changes for this property; yours must be DIFFERENT in kind and location from all of them (look for other mechanisms, other functions, other cooperating sites, other fault/interleaving/input classes, other parts of the property statement and of its quantifier):\n" + "\n".join(prior) + "\n\nFor each change i=1..2" + tail
    txt = txt.replace(f"/tmp/seed-{pid}b", f"/tmp/seed-{pid}{tag}")
    open(f"/var/tmp/seedprops/{pid}{tag}.txt", "w").write(txt)
    print(pid, len(prior), "prior")
