#!/usr/bin/env python3
"""Import a seeding agent's output (/tmp/seed-<pid>-out/<i>/) into /verif/seeded/<PID>-<i>/, confirm it myself
(tools/verify_seed.py) and run the property's check against it (tools/run_seeded.py). Removes the agent's worktree.
Usage: tools/process_seed.py c03 [--tier quick] [--tag b]"""
import json, os, shutil, subprocess, sys, glob
V = os.path.dirname(os.path.dirname(os.path.abspath(__file__)))
pid = sys.argv[1].lower(); PID = pid.upper()
tag = ""
if "--tag" in sys.argv: tag = sys.argv[sys.argv.index("--tag") + 1]
out = f"/tmp/seed-{pid}{tag}-out"
names = []
for d in sorted(glob.glob(out + "/[0-9]*")):
    i = os.path.basename(d)
    name = f"{PID}-{tag}{i}"
    dst = os.path.join(V, "seeded", name)
    os.makedirs(dst, exist_ok=True)
    try:
        meta = json.load(open(os.path.join(d, "meta.json")))
    except Exception as ex:
        print(name, "bad meta.json", ex); continue
    meta["property"] = PID
    meta.setdefault("source", "fresh sub-agent given only the property text and a scratch worktree")
    for f in ["patch.diff", meta["demo_file"]]:
        shutil.copy(os.path.join(d, f), dst)
    for f in ["notes.txt"]:
        if os.path.exists(os.path.join(d, f)): shutil.copy(os.path.join(d, f), dst)
    json.dump(meta, open(os.path.join(dst, "meta.json"), "w"), indent=1)
    names.append(name)
for n in names:
    subprocess.run([os.path.join(V, "tools", "verify_seed.py"), n])
ok = [n for n in names if json.load(open(os.path.join(V, "seeded", n, "confirm.json"))).get("confirmed")]
if ok:
    subprocess.run([os.path.join(V, "tools", "run_seeded.py")] + ok)
subprocess.run(["git", "-C", "/repo", "worktree", "remove", "--force", f"/tmp/seed-{pid}{tag}"], capture_output=True)
