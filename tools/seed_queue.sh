#!/bin/bash
# usage: tools/seed_queue.sh c22 c23 ...  — waits (up to 3h each) for /tmp/seed-<p>-out/2/meta.json, then processes
cd /verif
for p in "$@"; do
  for i in $(seq 1 360); do [ -f /tmp/seed-$p-out/2/meta.json ] && break; sleep 30; done
  sleep 60
  tools/process_seed.py $p >> /var/tmp/seedrun2.log 2>&1
done
