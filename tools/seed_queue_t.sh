#!/bin/bash
# usage: tools/seed_queue_t.sh <tag> <log> ids...
cd /verif
tag=$1; log=$2; shift 2
for p in "$@"; do
  for i in $(seq 1 360); do [ -f /tmp/seed-${p}${tag}-out/2/meta.json ] && break; sleep 30; done
  sleep 60
  tools/process_seed.py $p --tag $tag >> $log 2>&1
done
