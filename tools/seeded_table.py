#!/usr/bin/env python3
"""Rewrite the seeded-changes table in DESIGN.md (between SEEDED markers) from seeded/*/{meta,confirm,result}.json."""
import json, os, glob
V = os.path.dirname(os.path.dirname(os.path.abspath(__file__)))
out = ["| seed | property | what it changes | needs | confirmed | check verdict (quick) |", "|---|---|---|---|---|---|"]
for d in sorted(glob.glob(os.path.join(V, "seeded", "*"))):
    try:
        m = json.load(open(os.path.join(d, "meta.json")))
    except Exception:
        continue
    c = json.load(open(os.path.join(d, "confirm.json"))) if os.path.exists(os.path.join(d, "confirm.json")) else {}
    r = json.load(open(os.path.join(d, "result.json"))) if os.path.exists(os.path.join(d, "result.json")) else {}
    esc = lambda s: str(s).replace("|", "\\|").replace("\n", " ")[:260]
    out.append(f"| {os.path.basename(d)} | {m.get('property')} | {esc(m.get('what'))} | {esc(m.get('needs'))} | {'yes' if c.get('confirmed') else 'no'} | {r.get('verdict','(not run)')} |")
tbl = "\n".join(out)
p = os.path.join(V, "DESIGN.md"); s = open(p).read()
a, b = "<!-- SEEDED:BEGIN -->", "<!-- SEEDED:END -->"
if a not in s:
    s = s.replace("(filled in as sub-agent mutants are confirmed)", a + "\n" + b)
s = s[:s.index(a) + len(a)] + "\n" + tbl + "\n" + s[s.index(b):]
open(p, "w").write(s)
print(len(out) - 2, "seeds")
