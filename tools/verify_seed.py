#!/usr/bin/env python3
"""Confirm a seeded change myself: in a scratch worktree (1) patch applies, (2) go build ./... ok, (3) existing tests of
the listed packages pass with the change, (4) demo FAILS with the change, (5) demo PASSES without it.
Usage: tools/verify_seed.py <name>   (reads seeded/<name>/meta.json; writes seeded/<name>/confirm.json)"""
import json, os, subprocess, sys, shutil
V = os.path.dirname(os.path.dirname(os.path.abspath(__file__)))
name = sys.argv[1]
d = os.path.join(V, "seeded", name)
meta = json.load(open(os.path.join(d, "meta.json")))
wt = f"/var/tmp/seedverify-{name}"
env = dict(os.environ, GOFLAGS="-mod=mod", GOPROXY="off")
env.pop("GOSUMDB", None)
def run(cmd, **kw):
    r = subprocess.run(cmd, cwd=wt, env=env, capture_output=True, text=True, **kw)
    return r.returncode, (r.stdout + r.stderr)[-20000:]
subprocess.run(["git", "-C", "/repo", "worktree", "remove", "--force", wt], capture_output=True)
subprocess.run(["git", "-C", "/repo", "worktree", "add", "--detach", wt, "HEAD"], check=True, capture_output=True)
res = {}
try:
    rc, out = run(["git", "apply", os.path.join(d, "patch.diff")]); res["apply"] = rc == 0
    rc, out = run(["go", "build", "./..."]); res["build"] = rc == 0; res["build_out"] = out if rc else ""
    rc, out = run(["go", "test", "-vet=off", "-count=1"] + meta["test_pkgs"], timeout=1500)
    if rc:
        # timing-sensitive tests (raft elections) fail under machine load: re-run only the failing packages, alone
        import re
        pk = [x for x in re.findall(r"^FAIL\s+(\S+)\s", out, re.M) if "/" in x]
        res["existing_tests_first_run_failed_pkgs"] = pk
        rc = 0
        for p_ in pk:
            ok = False
            for _ in range(3):
                r2, o2 = run(["go", "test", "-vet=off", "-count=1", p_], timeout=1500)
                if r2 == 0:
                    ok = True; break
            if not ok:
                rc = 1; out = o2
    res["existing_tests_pass_with_change"] = rc == 0
    if rc: res["existing_tests_out"] = out[-1500:]
    demo_dst = os.path.join(wt, meta["demo_path"])
    shutil.copy(os.path.join(d, meta["demo_file"]), demo_dst)
    rc, out = run(["go", "test", "-vet=off", "-count=1"] + meta["demo_run"], timeout=900); res["demo_fails_with_change"] = rc != 0; res["demo_with_out"] = out[-600:]
    run(["git", "checkout", "--", "."])
    rc, out = run(["go", "test", "-vet=off", "-count=1"] + meta["demo_run"], timeout=900); res["demo_passes_without_change"] = rc == 0
    if rc: res["demo_without_out"] = out
finally:
    subprocess.run(["git", "-C", "/repo", "worktree", "remove", "--force", wt], capture_output=True)
res["confirmed"] = all(res.get(k) for k in ["apply", "build", "existing_tests_pass_with_change", "demo_fails_with_change", "demo_passes_without_change"])
json.dump(res, open(os.path.join(d, "confirm.json"), "w"), indent=1)
print(name, "CONFIRMED" if res["confirmed"] else "NOT CONFIRMED", {k: v for k, v in res.items() if isinstance(v, bool)})
