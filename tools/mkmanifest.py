#!/usr/bin/env python3
"""Regenerate /verif/MANIFEST.json from props/C*.py (claimed) + tools/not_applicable.json (unclaimed)."""
import glob, json, os, sys
V = os.path.dirname(os.path.dirname(os.path.abspath(__file__)))
sys.path.insert(0, V)
from vlib import core

ids = [json.loads(l)["id"] for l in open(os.path.join(V, "properties.jsonl"))]
na = json.load(open(os.path.join(V, "tools", "not_applicable.json")))
CLAIMED = set(open(os.path.join(V, "tools", "claimed.txt")).read().split())
checks, engines = [], []
claimed = set()
for p in sorted(glob.glob(os.path.join(V, "props", "C*.py"))):
    pid = os.path.basename(p)[:-3]
    spec, _ = core.load_spec(pid)
    if spec.get("unclaimed") or pid not in CLAIMED:
        continue
    claimed.add(pid)
    checks.append({
        "property_id": pid,
        "quick_cmd": f"./check {pid} --tier quick",
        "thorough_cmd": f"./check {pid} --tier thorough",
        "evidence_file": f"/verif/evidence/{pid}.json",
        "replay_cmd_template": f"./check {pid} --replay {{path}}",
        "engine": "lean4-proof+correspondence",
        "level_claimed": {"category": "proof", "text": spec.get("level_text", ""), "design_ref": spec.get("design_ref", f"DESIGN.md §7 {pid}")},
        "level_note": spec.get("level_note", "; ".join(spec.get("trusted_base", []))),
        "technique": spec.get("technique", "Lean 4 theorems over an executable model; model tied to /repo by regenerated facts (go/ast) and a differential correspondence harness"),
    })
nal = [{"property_id": i, "reason": na.get(i, "check not built yet in this round; see DESIGN.md §7 for the planned Lean model")} for i in ids if i not in claimed]
m = {
    "version": 1,
    "setup_cmd": "cd /verif && ./check --setup",
    "hooks": {
        "guard": "verif",
        "enable": "go build -tags verif -overlay /verif/.work/overlay/<id>.json ./cmd/verif_<id>  (run in /repo; harness mains, //go:build verif hook files and clockified copies of current sources are injected by the overlay; nothing is written to /repo)",
        "baseline_off_cmd": "cd /repo && GOFLAGS=-mod=mod GOPROXY=off go test -vet=off -count=1 -timeout 25m ./...",
        "source_commits": [],
        "add_only": True,
    },
    "engines": [{"name": "lean4-proof+correspondence", "path": "/verif/check", "serves_properties": sorted(claimed),
                 "kind_free_text": "Lean 4 kernel-checked theorems over executable models (lean/Arc); factgen go/ast translator regenerates Arc/Generated on every run; overlay-injected Go harness runs real code and the compiled Lean model on the same ops and diffs"}],
    "checks": checks,
    "not_applicable": nal,
    "notes": "Single entry point ./check <id>. Fixes and findings: known_findings.jsonl. See DESIGN.md.",
}
json.dump(m, open(os.path.join(V, "MANIFEST.json"), "w"), indent=1)
print("claimed", len(checks), "not_applicable", len(nal))
