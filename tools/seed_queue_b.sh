#!/bin/bash
cd /verif
for p in "$@"; do
  for i in $(seq 1 360); do [ -f /tmp/seed-${p}b-out/2/meta.json ] && break; sleep 30; done
  sleep 60
  tools/process_seed.py $p --tag b >> /var/tmp/seedrun3.log 2>&1
done
