#!/usr/bin/env python3
"""Run the checks against the seeded breaking changes in /verif/seeded/<name>/ (patch.diff + meta.json).
Each patch is applied to a scratch worktree of /repo (outside /repo and /verif), the property's check is run
with VERIF_REPO pointing at it (evidence/replays redirected so committed evidence is not disturbed), and the
worktree is removed. Usage: tools/run_seeded.py [name ...] [--tier quick|thorough]"""
import json, os, subprocess, sys, shutil, time
V = os.path.dirname(os.path.dirname(os.path.abspath(__file__)))
args = [a for a in sys.argv[1:] if not a.startswith("--")]
tier = "quick"
if "--tier" in sys.argv:
    tier = sys.argv[sys.argv.index("--tier") + 1]
    args = [a for a in args if a != tier]
names = args or sorted(d for d in os.listdir(os.path.join(V, "seeded")) if os.path.isdir(os.path.join(V, "seeded", d)))
rows = []
for name in names:
    d = os.path.join(V, "seeded", name)
    meta = json.load(open(os.path.join(d, "meta.json")))
    pid = meta["property"]
    wt = f"/var/tmp/seedrun-{name}-{os.getpid()}"
    subprocess.run(["git", "-C", "/repo", "worktree", "add", "--detach", wt, "HEAD"], check=True, capture_output=True)
    try:
        r = subprocess.run(["git", "-C", wt, "apply", os.path.join(d, "patch.diff")], capture_output=True, text=True)
        if r.returncode != 0:
            rows.append((name, pid, "PATCH-DOES-NOT-APPLY", r.stderr.strip()[:200])); continue
        env = dict(os.environ, VERIF_REPO=wt, VERIF_EVIDENCE_DIR=f"/var/tmp/seedrun-ev-{os.getpid()}", VERIF_REPLAY_DIR=os.path.join(d, "replays"))
        t0 = time.time()
        r = subprocess.run([os.path.join(V, "check"), pid, "--tier", tier], cwd=V, env=env, capture_output=True, text=True)
        viol = [l for l in r.stdout.splitlines() if l.startswith("VIOLATION")]
        kind = "MISSED" if r.returncode == 0 else ("CAUGHT-with-replay" if any("no-failing-input-found" not in l for l in viol) else "CAUGHT-no-failing-input-found")
        rows.append((name, pid, kind, f"{time.time()-t0:.0f}s " + (viol[0] if viol else r.stdout.strip().splitlines()[-1][:160] if r.stdout.strip() else r.stderr[-200:])))
        json.dump({"tier": tier, "exit": r.returncode, "verdict": kind, "stdout_tail": r.stdout[-3000:]}, open(os.path.join(d, "result.json"), "w"), indent=1)
    finally:
        subprocess.run(["git", "-C", "/repo", "worktree", "remove", "--force", wt], capture_output=True)
        shutil.rmtree(f"/var/tmp/seedrun-ev-{os.getpid()}", ignore_errors=True)
        # restore Generated facts from the real tree
        spec = os.path.join(V, ".work", "bin", "fg_" + pid.lower())
        if os.path.exists(spec):
            subprocess.run([spec, "/repo", os.path.join(V, "lean", "Arc", "Generated", pid + ".lean"), os.path.join(V, ".work", "facts", pid + ".json")], capture_output=True)
for r in rows:
    print(" | ".join(r))
