#!/usr/bin/env python3
"""Rewrite the findings table in DESIGN.md (between the FINDINGS markers) from known_findings.jsonl."""
import json, os, re
V = os.path.dirname(os.path.dirname(os.path.abspath(__file__)))
rows = [json.loads(l) for l in open(os.path.join(V, "known_findings.jsonl")) if l.strip()]
rows.sort(key=lambda r: (r["property"], r["status"], r["key"]))
out = ["| property | status | key | what |", "|---|---|---|---|"]
for r in rows:
    st = "**fixed** `%s`" % r.get("commit", "") if r["status"] == "fixed" else "known"
    what = re.sub(r"^fixed: property=\S+ \S+ ", "", r["what"]).replace("|", "\\|")
    out.append(f"| {r['property']} | {st} | `{r['key']}` | {what[:400]} |")
tbl = "\n".join(out)
p = os.path.join(V, "DESIGN.md")
s = open(p).read()
a, b = "<!-- FINDINGS:BEGIN -->", "<!-- FINDINGS:END -->"
if a not in s:
    s = s.replace("### 13.3 Seeded changes", a + "\n" + b + "\n\n### 13.3 Seeded changes")
s = s[:s.index(a) + len(a)] + "\n" + tbl + "\n" + s[s.index(b):]
open(p, "w").write(s)
print(len(rows), "rows")
