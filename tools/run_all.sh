#!/bin/bash
# usage: tools/run_all.sh <tier> <parallel> <ids...>   -> one summary line per property in /var/tmp/runall.log
tier=$1; par=$2; shift 2
cd /verif
printf "%s\n" "$@" | xargs -P $par -I{} sh -c './check {} --tier '$tier' > /var/tmp/runall-{}.out 2>&1; echo "{} exit=$? $(grep -v "^KNOWN" /var/tmp/runall-{}.out | grep "^\[" | tail -1)" >> /var/tmp/runall.log'
