#!/usr/bin/env python3
"""Build, test and evaluate each candidate C14 repair separately in a scratch worktree."""
import json, os, subprocess, sys
WT = "/var/tmp/wt-c14p"
Q = WT + "/internal/api/query.go"
M = WT + "/internal/sql/mask.go"
ENV = dict(os.environ, GOFLAGS="-mod=mod", GOPROXY="off")
ENV.pop("GOSUMDB", None)


def rd(p): return open(p, encoding="utf-8").read()
def wr(p, s): open(p, "w", encoding="utf-8").write(s)


def sub(p, old, new, count=1):
    s = rd(p)
    assert s.count(old) >= 1, (p, old[:60])
    wr(p, s.replace(old, new, count) if count else s.replace(old, new))


def fix1():  # case-exact seen key
    sub(Q, 'key := "default." + table\n', 'key := "default." + tableName\n', 0)


def fix2():  # denylist
    sub(Q, '\t"arc_partition_agg",\n}, "|")', '''\t"arc_partition_agg",
\t// Table functions that run SQL text / resolve a table name handed over as a STRING: the
\t// literal is masked, so whatever they read is invisible to every scanner here.
\t"query",
\t"query_table",
\t// Reads parquet footers incl. per-column min/max statistics (DuckDB >= 1.4).
\t"parquet_full_metadata",
}, "|")''')


def fix3():  # header path: CTE names always
    sub(Q, '''	var cteNames map[string]bool
	if strings.Contains(sqlLower, "with ") {
		cteNames = extractCTENames(sql)
	}''', '''	// Always, exactly as checkQueryPermissions / extractTableReferences do: gating on the
	// substring "with " missed `WITH<newline>name AS (…)`, so the permission side skipped the
	// CTE name while this rewrite turned it into a storage path (RBAC bypass under a header).
	cteNames := extractCTENames(sql)''')


def fix4():  # queryMeasurement
    sub(Q, '''			Error:     "Invalid query: " + err.Error(),
			Timestamp: time.Now().UTC().Format(time.RFC3339),
		})
	}

	// Convert SQL to storage paths (with caching)''', '''			Error:     "Invalid query: " + err.Error(),
			Timestamp: time.Now().UTC().Format(time.RFC3339),
		})
	}

	// SECURITY: the caller-supplied `where` text may contain subqueries; every table the
	// composed statement references must be permission-checked, not only database.measurement.
	if err := h.checkQueryPermissions(c, sql, "read"); err != nil {
		m.IncQueryErrors()
		return c.Status(fiber.StatusForbidden).JSON(QueryResponse{
			Success:   false,
			Error:     err.Error(),
			Timestamp: time.Now().UTC().Format(time.RFC3339),
		})
	}

	// Convert SQL to storage paths (with caching)''')


def fix5():  # fast-path guard
    sub(Q, '''	fromCount := strings.Count(sqlLower, "from ")
	if fromCount != 1 {
		return false
	}''', '''	fromCount := strings.Count(sqlLower, "from ")
	if fromCount != 1 {
		return false
	}
	// SECURITY: the fast path splices after the SUBSTRING "from ". Only take it when the
	// permission extractor (patternSimpleTable: word-bounded, same text) sees exactly that one
	// reference at exactly that offset, and nothing looks like a CTE name it would exclude —
	// otherwise `1from t` / `WITH<newline>t AS (…)` / a named WINDOW are rewritten unchecked.
	refs := patternSimpleTable.FindAllStringIndex(sqlLower, -1)
	if len(refs) != 1 || refs[0][0] != strings.Index(sqlLower, "from ") || len(extractCTENames(sqlLower)) != 0 {
		return false
	}''')


def fix6():  # collision-free FROM-mask placeholder
    sub(M, '''	var phBuf [32]byte
''', '''	var phBuf [32]byte
	// The placeholder prefix must not occur in the caller's text: unmask replaces EVERY
	// occurrence, so user text `__FROM_MASK_0__` would otherwise be turned into FROM.
	prefix := "__FROM_MASK_"
	for strings.Contains(sql, prefix) {
		prefix += "X_"
	}
''')
    sub(M, 'ph := strconv.AppendInt(append(phBuf[:0], "__FROM_MASK_"...), int64(maskIndex), 10)',
        'ph := strconv.AppendInt(append(phBuf[:0], prefix...), int64(maskIndex), 10)')


def fix7():  # non-ASCII dollar-quote tags
    sub(M, '''		isAlpha := (c >= 'a' && c <= 'z') || (c >= 'A' && c <= 'Z') || c == '_'
''', '''		// DuckDB (like PostgreSQL) also accepts bytes >= 0x80 in a tag: `$é$…$é$` is a string.
		isAlpha := (c >= 'a' && c <= 'z') || (c >= 'A' && c <= 'Z') || c == '_' || c >= 0x80
''')


def fix8():  # backslash is an escape only in E'' strings
    sub(M, '''					// Also handle backslash escaping (\\' or \\")
					if i > 0 && sql[i-1] == '\\\\' {
						i++
						continue
					}
''', '''					// No backslash escaping here: in a plain '…' literal or "…" identifier
					// DuckDB ends the token at this quote even after a backslash.
''')
    sub(M, '''	i++ // move past the opening quote
	for i < len(sql) {
		if sql[i] == quote {
			if i+1 < len(sql) && sql[i+1] == quote {
				i += 2
				continue
			}
			if i > 0 && sql[i-1] == '\\\\' {
				i++
				continue
			}
			return i + 1
		}
		i++
	}''', '''	i++ // move past the opening quote
	for i < len(sql) {
		// E'…': a backslash escapes the NEXT byte (so `\\\\` is a backslash and does not
		// escape a following quote).
		if sql[i] == '\\\\' && i+1 < len(sql) {
			i += 2
			continue
		}
		if sql[i] == quote {
			if i+1 < len(sql) && sql[i+1] == quote {
				i += 2
				continue
			}
			return i + 1
		}
		i++
	}''')


def fix9():  # non-ASCII blanks between a reader name and '('
    sub(Q, '''}, "|") + `)\\s*\\(`)''', '''}, "|") + `)(?:\\s|[^\\x00-\\x7F])*\\(`)''')


def fix10():  # ioDenylistNormalise: expose only identifier-shaped quoted names
    s = rd(Q)
    a = s.index("func ioDenylistNormalise(sql string) string {")
    b = s.index("\n}\n", a) + 3
    new = '''func ioDenylistNormalise(sql string) string {
	// Mask FIRST (quoted identifiers become placeholders), then put back only those quoted
	// names that are plain identifiers. Stripping the quote characters from the raw text
	// turned the CONTENT of a quoted identifier live: `"/*"` or `"$$"` opened a comment / a
	// dollar string that hid a following `read_parquet(` from the denylist.
	maskInput := backticksToDoubleQuotes(sql)
	features := scanSQLFeatures(maskInput)
	masked, masks := sqlutil.MaskStringLiterals(maskInput, features.hasQuotes)
	for ph, name := range sqlutil.IdentifierNames(masks) {
		bare := name != ""
		for i := 0; i < len(name) && bare; i++ {
			bare = isIdentChar(name[i])
		}
		if bare {
			masked = strings.ReplaceAll(masked, ph, name)
		}
	}
	return stripSQLComments(masked, features.hasDashComment || features.hasBlockComment)
}
'''
    wr(Q, s[:a] + new + s[b:])


def fix11():  # single-pass unmask
    s = rd(M)
    a = s.index("func UnmaskStringLiterals(sql string, masks []StringMask) string {")
    b = s.index("\n}\n", a) + 3
    new = '''func UnmaskStringLiterals(sql string, masks []StringMask) string {
	if len(masks) == 0 {
		return sql
	}
	// One pass over the text: restored literal text is never rescanned, so a literal whose
	// own content looks like a placeholder ('__STR_1__') cannot capture another literal.
	pairs := make([]string, 0, len(masks)*2)
	for _, mask := range masks {
		pairs = append(pairs, mask.Placeholder, mask.Original)
	}
	return strings.NewReplacer(pairs...).Replace(sql)
}
'''
    wr(M, s[:a] + new + s[b:])


def fix12():  # the masker skips comments
    sub(M, '''		// Check for string literal start (single or double quote)
		if ch == '\\'' || ch == '"' {''', '''		// Comments are copied through verbatim (stripSQLComments removes them later): a
		// quote character inside a comment does not open a literal. Block comments nest,
		// as in DuckDB.
		if ch == '-' && i+1 < len(sql) && sql[i+1] == '-' {
			j := i
			for j < len(sql) && sql[j] != '\\n' {
				j++
			}
			result.WriteString(sql[i:j])
			i = j
			continue
		}
		if ch == '/' && i+1 < len(sql) && sql[i+1] == '*' {
			j, depth := i+2, 1
			for j < len(sql) && depth > 0 {
				if j+1 < len(sql) && sql[j] == '/' && sql[j+1] == '*' {
					depth++
					j += 2
				} else if j+1 < len(sql) && sql[j] == '*' && sql[j+1] == '/' {
					depth--
					j += 2
				} else {
					j++
				}
			}
			result.WriteString(sql[i:j])
			i = j
			continue
		}

		// Check for string literal start (single or double quote)
		if ch == '\\'' || ch == '"' {''')


FIXES = [
    ("fix-1-seen-key-case-exact", fix1, "fix: permission de-duplication key keeps the letter case of bare table references"),
    ("fix-2-denylist-query-functions", fix2, "fix: deny query(), query_table() and parquet_full_metadata() in user SQL"),
    ("fix-3-header-cte-names-ungated", fix3, "fix: header transform always extracts CTE names (WITH followed by a line break)"),
    ("fix-4-measurement-where-permission", fix4, "fix: GET /query/:measurement permission-checks every table of the composed statement"),
    ("fix-5-fast-path-guard", fix5, "fix: single-table fast path only when the permission extractor sees exactly that reference"),
    ("fix-6-from-mask-prefix", fix6, "fix: FROM-mask placeholder prefix cannot collide with user text"),
    ("fix-7-dollar-tag-nonascii", fix7, "fix: dollar-quote tags may contain non-ASCII letters, as in DuckDB"),
    ("fix-8-backslash-escape-only-in-estrings", fix8, "fix: backslash escapes a quote only inside E'' strings when masking literals"),
    ("fix-9-denylist-nonascii-blank", fix9, "fix: I/O denylist tolerates non-ASCII blanks between function name and parenthesis"),
    ("fix-10-denylist-normalise-after-masking", fix10, "fix: I/O denylist exposes quoted function names without making identifier content live"),
    ("fix-11-unmask-single-pass", fix11, "fix: restore masked literals in one pass so literal text is never rescanned"),
    ("fix-12-masker-skips-comments", fix12, "fix: quotes inside SQL comments do not open string literals when masking"),
]


def sh(cmd, cwd=None, env=ENV, timeout=3000):
    p = subprocess.run(cmd, cwd=cwd, env=env, stdout=subprocess.PIPE, stderr=subprocess.STDOUT, timeout=timeout)
    return p.returncode, p.stdout.decode("utf-8", "replace")


def harness_keys(tag):
    sys.path.insert(0, "/verif")
    os.environ["VERIF_REPO"] = WT
    from vlib import core
    spec, _ = core.load_spec("C14")
    ov, _ = core.make_overlay("C14", spec)
    rc, out, b = core.build_harness("C14", spec, spec["harnesses"][0], ov)
    if rc != 0:
        return None, "harness build failed: " + out[-400:]
    outdir = "/var/tmp/c14p-out"
    os.makedirs(outdir, exist_ok=True)
    rc, out = sh([b, "-seed", "1", "-tier", "quick", "-n", "1500", "-out", outdir, "-facts", "/verif/.work/facts/C14.json"], cwd=outdir)
    st = json.load(open(outdir + "/stats.json"))
    return sorted(set(p["key"] for p in st["propfails"])), ""


def main():
    only = sys.argv[1:]
    res = {}
    if os.path.exists("/var/tmp/c14fixes.json"):
        res = json.load(open("/var/tmp/c14fixes.json"))
    if not os.path.isdir(WT):
        sh(["git", "-C", "/repo", "worktree", "add", "--detach", WT, "HEAD"])
    if "base" not in res:
        sh(["git", "checkout", "-q", "."], cwd=WT)
        res["base"], _ = harness_keys("base")
        json.dump(res, open("/var/tmp/c14fixes.json", "w"), indent=1)
    for name, fn, msg in FIXES:
        if only and not any(o in name for o in only):
            continue
        sh(["git", "checkout", "-q", "."], cwd=WT)
        fn()
        rc, out = sh(["go", "build", "./internal/api", "./internal/sql"], cwd=WT)
        if rc != 0:
            res[name] = {"build": out[-600:]}
            continue
        rc, diff = sh(["git", "diff"], cwd=WT)
        open(f"/verif/corpus/C14/{name}.diff", "w").write(diff)
        rc, out = sh(["go", "test", "-tags", "duckdb_arrow", "./internal/sql/...", "./internal/api/..."], cwd=WT)
        tests = "pass" if rc == 0 else out[-1500:]
        keys, err = harness_keys(name)
        gone = sorted(set(res["base"]) - set(keys)) if keys is not None else None
        new = sorted(set(keys) - set(res["base"])) if keys is not None else None
        res[name] = {"tests": tests, "gone": gone, "new": new, "err": err, "msg": msg, "lines": diff.count("\n")}
        json.dump(res, open("/var/tmp/c14fixes.json", "w"), indent=1)
        print(name, "tests:", tests[:80].replace("\n", " "), "gone:", gone, "new:", new, flush=True)


main()
