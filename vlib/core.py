"""Shared machinery of /verif/check.  See DESIGN.md §2–§4.

Pipeline for one property (quick and thorough differ only in harness size and the leanchecker pass):

  1. factgen      regenerate lean/Arc/Generated/<id>.lean + .work/facts/<id>.json from /repo   (tie a)
  2. lean         lake build Arc.Props.<id>; generate + run Arc/Audit/<id>.lean (#print axioms)
  3. driver       lake build drive_<id>  (core-only lean_exe of the executable model)
  4. harness      go build -tags verif -overlay … ./cmd/verif_<id> in /repo; run it           (tie b)
  5. diff         model driver output vs implementation output, line by line
  6. verdict      property failures seen on the real code (harness monitors) → VIOLATION with replay,
                  unless listed in known_findings.jsonl (→ KNOWN-FINDING); a broken tie with no failing
                  input → VIOLATION … no-failing-input-found
"""
import fcntl, glob, hashlib, importlib.util, json, os, re, shutil, subprocess, sys, time

VERIF = os.path.dirname(os.path.dirname(os.path.abspath(__file__)))
REPO = os.environ.get("VERIF_REPO", "/repo")
WORK = os.path.join(VERIF, ".work")
LEAN = os.path.join(VERIF, "lean")
MODPATH = "github.com/basekick-labs/arc"
ALLOWED_AXIOMS = {"propext", "Classical.choice", "Quot.sound"}


def goenv():
    e = dict(os.environ)
    e["GOFLAGS"] = "-mod=mod"
    e["GOPROXY"] = "off"
    e.pop("GOSUMDB", None)          # GOSUMDB=off breaks the cached go1.26.4 toolchain switch
    e["GOTOOLCHAIN"] = "auto"
    e.setdefault("GOMAXPROCS", "16")
    e["CGO_ENABLED"] = "1"
    return e


def sh(cmd, cwd=None, env=None, timeout=None, stdin=None, stdout_path=None):
    """run, return (rc, combined output or stdout)"""
    t0 = time.time()
    try:
        if stdout_path:
            with open(stdout_path, "wb") as so:
                p = subprocess.run(cmd, cwd=cwd, env=env, timeout=timeout, stdin=stdin, stdout=so,
                                   stderr=subprocess.PIPE)
            return p.returncode, p.stderr.decode("utf-8", "replace")
        p = subprocess.run(cmd, cwd=cwd, env=env, timeout=timeout, stdin=stdin,
                           stdout=subprocess.PIPE, stderr=subprocess.STDOUT)
        return p.returncode, p.stdout.decode("utf-8", "replace")
    except subprocess.TimeoutExpired as ex:
        out = (ex.stdout or b"").decode("utf-8", "replace") if isinstance(ex.stdout, (bytes, bytearray)) else ""
        return 124, out + f"\n[timeout after {time.time()-t0:.0f}s: {' '.join(map(str, cmd))[:200]}]"


class Lock:
    def __init__(self, name):
        os.makedirs(WORK, exist_ok=True)
        self.path = os.path.join(WORK, name + ".lock")

    def __enter__(self):
        self.f = open(self.path, "w")
        fcntl.flock(self.f, fcntl.LOCK_EX)
        return self

    def __exit__(self, *a):
        fcntl.flock(self.f, fcntl.LOCK_UN)
        self.f.close()


def lake(args, timeout=3000):
    with Lock("lake"):
        return sh(["lake"] + args, cwd=LEAN, timeout=timeout)


def lake_env_lean(relfile, timeout=1200):
    return sh(["lake", "env", "lean", relfile], cwd=LEAN, timeout=timeout)


# ---------------------------------------------------------------- factgen
def build_factgen(pid):
    """each property has its own extractor binary: go/factgen/cmd/<id lower>/ (shared lib: go/factgen/fg)"""
    os.makedirs(os.path.join(WORK, "bin"), exist_ok=True)
    e = goenv()
    e["GOFLAGS"] = ""
    e["GOTOOLCHAIN"] = "local"
    rc, out = sh(["go", "build", "-o", os.path.join(WORK, "bin", "fg_" + pid.lower()), "./cmd/" + pid.lower()],
                 cwd=os.path.join(VERIF, "go", "factgen"), env=e, timeout=600)
    return rc, out


def run_factgen(pid):
    os.makedirs(os.path.join(WORK, "facts"), exist_ok=True)
    lean_out = os.path.join(LEAN, "Arc", "Generated", pid + ".lean")
    json_out = os.path.join(WORK, "facts", pid + ".json")
    rc, out = sh([os.path.join(WORK, "bin", "fg_" + pid.lower()), REPO, lean_out, json_out], timeout=300)
    return rc, out, json_out


# ---------------------------------------------------------------- overlay / clockify / harness build
CLOCK_IMPORT = 'verifclock "%s/internal/verifclock"' % MODPATH


def clockify_source(src):
    """Textual rewrite: time.Now() / time.Since( / time.Until( -> verifclock.*; only *adds* an import.
    Returns (new_source, nreplacements)."""
    n = 0
    def sub(pat, rep, s):
        nonlocal n
        s2, k = re.subn(pat, rep, s)
        n += k
        return s2
    out = sub(r"\btime\.Now\(\)", "verifclock.Now()", src)
    out = sub(r"\btime\.Since\(", "verifclock.Since(", out)
    out = sub(r"\btime\.Until\(", "verifclock.Until(", out)
    if n == 0:
        return src, 0
    # add the import right after the package clause; keep `time` referenced in case it became unused
    m = re.search(r"^package\s+\w+.*$", out, re.M)
    # if every use of package time was replaced, the file's own `time` import would now be unused
    keep_time = "" if re.search(r"\btime\.\w", out) else "\nvar _ = time.Second\n"
    has_time_import = re.search(r'^\s*(?:import\s+)?"time"\s*$', out, re.M) is not None
    inject = "\nimport " + CLOCK_IMPORT + "\nimport verifclockTime \"time\"\n"
    out = out[:m.end()] + inject + out[m.end():] + "\nvar _ = verifclockTime.Second\n" + (keep_time if has_time_import else "")
    return out, n


def make_overlay(pid, spec):
    """Build .work/overlay/<pid>.json mapping harness main, shared helper packages, hook files and
    clockified copies of the CURRENT sources into /repo paths. Nothing is written under /repo."""
    odir = os.path.join(WORK, "overlay", pid)
    shutil.rmtree(odir, ignore_errors=True)
    os.makedirs(odir)
    rep = {}
    def mapdir(srcdir, destdir):
        for f in sorted(glob.glob(os.path.join(srcdir, "*.go"))):
            rep[os.path.join(REPO, destdir, os.path.basename(f))] = f
    mapdir(os.path.join(VERIF, "go", "vh"), "internal/verif/vh")
    mapdir(os.path.join(VERIF, "go", "verifclock"), "internal/verifclock")
    for h in spec_harnesses(spec):
        mapdir(os.path.join(VERIF, "go", "harness", h["name"]), "cmd/verif_" + h["name"])
    # hooks: {"internal/ingest": "go/hooks/ingest"}  every *.go there becomes zz_verif_<name>
    for destpkg, srcdir in (spec.get("hooks") or {}).items():
        for f in sorted(glob.glob(os.path.join(VERIF, srcdir, "*.go"))):
            rep[os.path.join(REPO, destpkg, "zz_verif_" + os.path.basename(f))] = f
    # extra injected packages: {"internal/verif/xyz": "go/xyz"}
    for destpkg, srcdir in (spec.get("packages") or {}).items():
        mapdir(os.path.join(VERIF, srcdir), destpkg)
    notes = {}
    for rel in spec.get("clockify") or []:
        p = os.path.join(REPO, rel)
        if not os.path.exists(p):
            return None, f"clockify: {rel} no longer exists"
        src = open(p, encoding="utf-8").read()
        new, n = clockify_source(src)
        notes[rel] = n
        if n == 0:
            continue
        dst = os.path.join(odir, rel.replace("/", "__"))
        open(dst, "w", encoding="utf-8").write(new)
        rep[p] = dst
    # arbitrary per-property source rewriters: list of (relpath, function(src)->src)
    for rel, fn in spec.get("rewrite") or []:
        p = os.path.join(REPO, rel)
        if not os.path.exists(p):
            return None, f"rewrite: {rel} no longer exists"
        base = rep.get(p, p)
        src = open(base, encoding="utf-8").read()
        try:
            new = fn(src)
        except Exception as ex:  # pattern not found = tie broken
            return None, f"rewrite {rel}: {ex}"
        dst = os.path.join(odir, "rw__" + rel.replace("/", "__"))
        open(dst, "w", encoding="utf-8").write(new)
        rep[p] = dst
    opath = os.path.join(WORK, "overlay", pid + ".json")
    json.dump({"Replace": rep}, open(opath, "w"), indent=1)
    return opath, notes


def spec_harnesses(spec):
    hs = spec.get("harnesses")
    if hs is None:
        hs = [{"name": spec["id"].lower()}]
    return hs


def build_harness(pid, spec, h, overlay):
    binp = os.path.join(WORK, "bin", "h_" + h["name"])
    tags = h.get("tags", "verif")
    cmd = ["go", "build", "-tags", tags, "-overlay", overlay, "-o", binp, "./cmd/verif_" + h["name"]]
    rc, out = sh(cmd, cwd=REPO, env=goenv(), timeout=h.get("build_timeout", 1800))
    return rc, out, binp


# ---------------------------------------------------------------- lean: props, audit, driver
THEOREM_RE = re.compile(r"^\s*(?:@\[[^\]]*\]\s*)?theorem\s+(C\d\d_[A-Za-z0-9_']+)", re.M)


def strip_lean_comments(s):
    out, i, depth = [], 0, 0
    while i < len(s):
        if s.startswith("/-", i):
            depth += 1; i += 2; continue
        if depth and s.startswith("-/", i):
            depth -= 1; i += 2; continue
        if depth:
            if s[i] == "\n":
                out.append("\n")
            i += 1; continue
        if s.startswith("--", i):
            j = s.find("\n", i)
            i = len(s) if j < 0 else j
            continue
        out.append(s[i]); i += 1
    return "".join(out)


FORBIDDEN = re.compile(r"\bsorry\b|\badmit\b|^\s*axiom\s|native_decide|bv_decide|implemented_by|\bunsafe\s|maxHeartbeats\s+0\b", re.M)


def prop_lean_files(pid):
    """All Lean files that belong to a property: Props/<id>.lean, Model/<id>*.lean, Proofs/<id>/…, Spec/<id>*"""
    pats = [f"Arc/Props/{pid}.lean", f"Arc/Model/{pid}*.lean", f"Arc/Model/{pid}/**/*.lean",
            f"Arc/Proofs/{pid}*.lean", f"Arc/Proofs/{pid}/**/*.lean", f"Arc/Spec/{pid}*.lean",
            f"Arc/Generated/{pid}*.lean", "Arc/Base/*.lean"]
    fs = []
    for p in pats:
        fs += glob.glob(os.path.join(LEAN, p), recursive=True)
    return sorted(set(fs))


def lean_stage(pid, tier):
    """returns dict(ok, theorems=[{name, axioms, ok}], errors=[...], log)"""
    res = {"ok": True, "theorems": [], "errors": [], "log": ""}
    props = os.path.join(LEAN, "Arc", "Props", pid + ".lean")
    if not os.path.exists(props):
        res["ok"] = False; res["errors"].append("missing " + props); return res
    # forbidden constructs (outside comments) anywhere in this property's Lean sources
    for f in prop_lean_files(pid):
        m = FORBIDDEN.search(strip_lean_comments(open(f, encoding="utf-8").read()))
        if m:
            res["ok"] = False
            res["errors"].append(f"forbidden construct {m.group(0).strip()!r} in {os.path.relpath(f, LEAN)}")
    rc, out = lake(["build", f"Arc.Props.{pid}"])
    res["log"] = out[-6000:]
    if rc != 0:
        res["ok"] = False
        errs = re.findall(r"^error: (\S+?):(\d+):\d+: (.*)$", out, re.M)
        # name the theorem enclosing each error line
        for f, ln, msg in errs[:8]:
            res["errors"].append(f"{f}:{ln}: {msg[:200]} [in {enclosing_decl(os.path.join(LEAN, f), int(ln))}]")
        if not errs:
            res["errors"].append("lake build failed: " + out[-400:])
        return res
    src = strip_lean_comments(open(props, encoding="utf-8").read())
    names = THEOREM_RE.findall(src)
    ns = re.search(r"^namespace\s+(\S+)", src, re.M)
    nsname = ns.group(1) if ns else ""
    if not names:
        res["ok"] = False; res["errors"].append("no property theorems (C??_*) found in Props/" + pid); return res
    os.makedirs(os.path.join(LEAN, "Arc", "Audit"), exist_ok=True)
    audit = os.path.join(LEAN, "Arc", "Audit", pid + ".lean")
    body = f"import Arc.Props.{pid}\n-- GENERATED by check: axioms audit of every property theorem\n"
    for n in names:
        q = f"{nsname}.{n}" if nsname else n
        body += f"#print axioms {q}\n"
    if not os.path.exists(audit) or open(audit).read() != body:
        open(audit, "w").write(body)
    rc, out = lake_env_lean(os.path.join("Arc", "Audit", pid + ".lean"))
    if rc != 0:
        res["ok"] = False; res["errors"].append("audit failed: " + out[-600:]); return res
    # parse "'X' depends on axioms: [a, b]" / "'X' does not depend on any axioms"
    seen = {}
    for m in re.finditer(r"'([^']+)' (does not depend on any axioms|depends on axioms: \[([^\]]*)\])", out.replace("\n ", " ")):
        ax = [] if m.group(3) is None else [a.strip() for a in m.group(3).replace("\n", " ").split(",") if a.strip()]
        seen[m.group(1)] = ax
    for n in names:
        q = f"{nsname}.{n}" if nsname else n
        ax = seen.get(q)
        ok = ax is not None and set(ax) <= ALLOWED_AXIOMS
        res["theorems"].append({"name": q, "axioms": ax, "ok": ok})
        if not ok:
            res["ok"] = False
            res["errors"].append(f"theorem {q}: axioms {ax} not within {sorted(ALLOWED_AXIOMS)}")
    if tier == "thorough":
        with Lock("lake"):
            rc, out = sh(["lake", "env", "leanchecker", f"Arc.Props.{pid}"], cwd=LEAN, timeout=3000)
        res["leanchecker"] = "ok" if rc == 0 else out[-400:]
        if rc != 0:
            res["ok"] = False; res["errors"].append("leanchecker rejected Arc.Props." + pid)
    return res


def enclosing_decl(path, line):
    try:
        lines = open(path, encoding="utf-8").read().split("\n")
    except OSError:
        return "?"
    for i in range(min(line, len(lines)) - 1, -1, -1):
        m = re.match(r"\s*(?:@\[[^\]]*\]\s*)?(?:private\s+)?(theorem|lemma|def|example|instance)\s+(\S+)?", lines[i])
        if m:
            return f"{m.group(1)} {m.group(2) or ''}".strip()
    return "?"


def build_driver(name):
    rc, out = lake(["build", name])
    return rc, out, os.path.join(LEAN, ".lake", "build", "bin", name)


# ---------------------------------------------------------------- known findings
def load_known():
    p = os.path.join(VERIF, "known_findings.jsonl")
    ks = []
    if os.path.exists(p):
        for l in open(p):
            l = l.strip()
            if l and not l.startswith("#"):
                ks.append(json.loads(l))
    return ks


# ---------------------------------------------------------------- main per-property run
def load_spec(pid):
    p = os.path.join(VERIF, "props", pid + ".py")
    sp = importlib.util.spec_from_file_location("prop_" + pid, p)
    mod = importlib.util.module_from_spec(sp)
    sp.loader.exec_module(mod)
    return mod.SPEC, mod


def first_diff(a_path, b_path):
    """compare two text files line by line; return (nlines, first mismatch index or -1, a_line, b_line)"""
    n = 0
    with open(a_path, encoding="utf-8", errors="replace") as fa, open(b_path, encoding="utf-8", errors="replace") as fb:
        while True:
            la, lb = fa.readline(), fb.readline()
            if not la and not lb:
                return n, -1, None, None
            if la.rstrip("\n") != lb.rstrip("\n"):
                return n, n, la.rstrip("\n"), lb.rstrip("\n")
            n += 1


def nth_lines(path, lo, hi):
    out = []
    with open(path, encoding="utf-8", errors="replace") as f:
        for i, l in enumerate(f):
            if i >= hi:
                break
            if i >= lo:
                out.append(l.rstrip("\n"))
    return out


def run_property(pid, tier, seed, replay=None):
    # one run of a property at a time (runs share .work/run/<id> and Generated/<id>.lean)
    with Lock("prop-" + pid):
        return _run_property(pid, tier, seed, replay)


def _run_property(pid, tier, seed, replay=None):
    t0 = time.time()
    spec, mod = load_spec(pid)
    evdir = os.environ.get("VERIF_EVIDENCE_DIR") or os.path.join(VERIF, "evidence")
    os.makedirs(evdir, exist_ok=True)
    rdir = os.path.join(os.environ.get("VERIF_REPLAY_DIR") or os.path.join(VERIF, "replays"), pid)
    os.makedirs(rdir, exist_ok=True)
    broken = []          # list of (what, detail)  — broken ties / obligations
    notes = {}
    facts_json = None

    # 1. facts
    if spec.get("factgen", False):
        rc, out = build_factgen(pid)
        if rc != 0:
            broken.append(("factgen-build", out[-800:]))
        else:
            rc, out, facts_json = run_factgen(pid)
            if rc != 0:
                broken.append(("factgen", out.strip()[-800:]))
                facts_json = facts_json if os.path.exists(facts_json) else None
    # 2. lean
    lean = lean_stage(pid, tier)
    if not lean["ok"]:
        for e in lean["errors"]:
            broken.append(("lean-obligation", e))
    # 3+4+5 correspondence
    overlay, onotes = make_overlay(pid, spec)
    corr = {"ops": 0, "mismatches": 0, "runs": []}
    stats_all = []
    propfails = []
    if overlay is None:
        broken.append(("overlay", onotes))
    else:
        notes["clockify"] = onotes
        for h in spec_harnesses(spec):
            hr = run_harness(pid, spec, h, overlay, tier, seed, facts_json, broken, search=False)
            if hr:
                corr["ops"] += hr["ops"]; corr["mismatches"] += hr["mismatch"]; corr["runs"].append(hr["summary"])
                stats_all.append(hr["stats"]); propfails += hr["stats"].get("propfails", [])
    # custom extra stage
    if hasattr(mod, "extra_stage"):
        try:
            mod.extra_stage(dict(pid=pid, tier=tier, seed=seed, broken=broken, propfails=propfails, notes=notes, facts=facts_json))
        except Exception as ex:
            broken.append(("extra-stage", repr(ex)))

    # 6. search when a tie is broken and nothing failed on the implementation yet
    if broken and not propfails and overlay is not None and tier != "thorough":
        for h in spec_harnesses(spec):
            hr = run_harness(pid, spec, h, overlay, "thorough", seed, facts_json, [], search=True)
            if hr:
                propfails += hr["stats"].get("propfails", [])
        notes["search"] = "tie broken: re-ran harness at thorough size to search for a failing input"

    # verdict
    known = [k for k in load_known() if k.get("property") == pid]
    known_keys = {k["key"]: k for k in known if k.get("status") == "known"}
    lines, violations = [], 0
    seen_known = set()
    for pf in propfails:
        k = known_keys.get(pf["key"])
        if k is not None:
            if pf["key"] not in seen_known:
                seen_known.add(pf["key"])
                lines.append(f"KNOWN-FINDING: property={pid} {k.get('what', pf['what'])}")
            continue
        violations += 1
        rp = os.path.join(rdir, f"{tier}-{seed}-{hashlib.sha1(pf['key'].encode()).hexdigest()[:10]}.json")
        json.dump({"property": pid, "kind": "property-violated-on-implementation", "key": pf["key"], "what": pf["what"],
                   "replay": pf["replay"], "tier": tier, "seed": seed, "broken_ties": broken}, open(rp, "w"), indent=1)
        lines.append(f"VIOLATION property={pid} replay={rp}")
    if broken and violations == 0:
        violations += 1
        rp = os.path.join(rdir, f"{tier}-{seed}-tie.json")
        json.dump({"property": pid, "kind": "tie-or-obligation-broken", "no_longer_checks": [{"what": w, "detail": d} for w, d in broken],
                   "tier": tier, "seed": seed, "note": "no failing input found by the search; the property is no longer shown to hold"},
                  open(rp, "w"), indent=1)
        lines.append(f"VIOLATION property={pid} replay={rp} no-failing-input-found")

    # evidence
    thms = lean["theorems"]
    ev_eval = sum(s.get("evaluations", 0) for s in stats_all)
    ev_dnt = sum(s.get("distinct_nontrivial", 0) for s in stats_all)
    samples = []
    hist = {}
    for s in stats_all:
        samples += s.get("samples", [])[:3]
        for k, v in (s.get("histogram") or {}).items():
            hist[k] = hist.get(k, 0) + v
    if not samples:
        samples = [t["name"] for t in thms[:3]] or ["(no case ran)"]
    cov = {
        "obligations": max(1, len(thms)) if thms else 1,
        "discharged": sum(1 for t in thms if t["ok"]) if lean["ok"] else 0,
        "checker_cmd": f"cd /verif/lean && lake build Arc.Props.{pid} && lake env lean Arc/Audit/{pid}.lean" + (" && lake env leanchecker Arc.Props." + pid if tier == "thorough" else ""),
        "trusted_base": spec.get("trusted_base", []) + [
            "Lean 4.33.0 kernel; axioms allowed: propext, Classical.choice, Quot.sound (audited per theorem below)",
            "factgen (go/ast extractor) and the correspondence harness/generators in /verif/go",
        ],
        "theorems": thms,
        "evaluations": ev_eval,
        "distinct_nontrivial": ev_dnt,
        "rule": "; ".join(s.get("rule", "") for s in stats_all) or "no correspondence cases for this property",
        "samples": samples,
        "traces_validated_against_impl": corr["ops"] - corr["mismatches"],
        "correspondence": corr,
        "histogram": hist,
        "broken_ties": [{"what": w, "detail": d[:500]} for w, d in broken],
        "known_findings_seen": sorted(seen_known),
        "notes": notes,
        "extra": [s.get("extra") for s in stats_all if s.get("extra")],
        "exhaustive": bool(spec.get("exhaustive", False)),
    }
    ev = {"property_id": pid, "tier": tier, "seed": int(seed), "level": "proof", "coverage": cov,
          "assumptions": spec.get("assumptions", []), "wall_s": round(time.time() - t0, 2), "violations": violations}
    json.dump(ev, open(os.path.join(evdir, pid + ".json"), "w"), indent=1)
    for l in lines:
        print(l)
    print(f"[{pid}] tier={tier} seed={seed} theorems={len(thms)} discharged={cov['discharged']} ops={corr['ops']} "
          f"mismatches={corr['mismatches']} cases={ev_eval} broken={len(broken)} violations={violations} wall={ev['wall_s']}s")
    if broken:
        for w, d in broken:
            print(f"  broken: {w}: {d[:300]}")
    return 1 if violations else 0


def run_harness(pid, spec, h, overlay, tier, seed, facts_json, broken, search=False):
    name = h["name"]
    rc, out, binp = build_harness(pid, spec, h, overlay)
    if rc != 0:
        broken.append(("harness-build:" + name, out[-1500:]))
        return None
    outdir = os.path.join(WORK, "run", pid, name + ("-search" if search else ""))
    shutil.rmtree(outdir, ignore_errors=True)
    os.makedirs(outdir)
    cmd = [binp, "-seed", str(seed), "-tier", tier, "-out", outdir]
    if facts_json:
        cmd += ["-facts", facts_json]
    cmd += h.get("args", {}).get(tier, [])
    e = goenv()
    e.setdefault("GOMEMLIMIT", "12GiB")
    tmo = h.get("timeout", {}).get(tier, 900 if tier == "quick" else 3000)
    rc, out = sh(cmd, cwd=outdir, env=e, timeout=tmo)
    open(os.path.join(outdir, "harness.log"), "w").write(out)
    stp = os.path.join(outdir, "stats.json")
    if rc != 0 or not os.path.exists(stp):
        broken.append(("harness-run:" + name, f"exit {rc}: " + out[-1500:]))
        return None
    stats = json.load(open(stp))
    res = {"ops": stats.get("ops", 0), "mismatch": 0, "stats": stats,
           "summary": {"harness": name, "ops": stats.get("ops", 0), "cases": stats.get("evaluations", 0)}}
    drv = h.get("driver", "drive_" + name)
    if drv and stats.get("ops", 0) > 0:
        rc, out, dbin = build_driver(drv)
        if rc != 0:
            broken.append(("driver-build:" + drv, out[-1200:]))
            return res
        mpath = os.path.join(outdir, "model.txt")
        with open(os.path.join(outdir, "ops.txt"), "rb") as fin:
            rc, err = sh([dbin] + h.get("driver_args", []), stdin=fin, stdout_path=mpath, timeout=tmo)
        if rc != 0:
            broken.append(("driver-run:" + drv, f"exit {rc}: {err[-600:]}"))
            return res
        n, idx, la, lb = first_diff(os.path.join(outdir, "impl.txt"), mpath)
        if idx >= 0:
            res["mismatch"] = 1
            ctx_ops = nth_lines(os.path.join(outdir, "ops.txt"), max(0, idx - 30), idx + 1)
            broken.append(("correspondence:" + name,
                           f"op #{idx}: implementation={la!r} model={lb!r}; ops leading to it: " + " | ".join(ctx_ops[-12:])))
        res["summary"]["compared"] = n
    return res


def setup():
    """MANIFEST.setup_cmd: build everything from files on disk, warm the caches."""
    t0 = time.time()
    os.makedirs(os.path.join(WORK, "bin"), exist_ok=True)
    ok = True
    pids = sorted(os.path.basename(p)[:-3] for p in glob.glob(os.path.join(VERIF, "props", "C*.py")))
    for pid in pids:
        spec, _ = load_spec(pid)
        if spec.get("factgen"):
            rc, out = build_factgen(pid)
            if rc != 0:
                print(f"factgen build {pid}: {out}"); ok = False; continue
            rc, out, _ = run_factgen(pid)
            if rc != 0:
                print(f"factgen {pid}: {out}"); ok = False
    targets = [f"Arc.Props.{p}" for p in pids]
    drivers = []
    for pid in pids:
        spec, _ = load_spec(pid)
        for h in spec_harnesses(spec):
            d = h.get("driver", "drive_" + h["name"])
            if d:
                drivers.append(d)
    rc, out = lake(["build"] + targets + sorted(set(drivers)), timeout=7200)
    print("lake build:", "ok" if rc == 0 else out[-3000:])
    ok = ok and rc == 0
    for pid in pids:
        spec, _ = load_spec(pid)
        overlay, n = make_overlay(pid, spec)
        if overlay is None:
            print(f"overlay {pid}: {n}"); ok = False; continue
        for h in spec_harnesses(spec):
            rc, out, _ = build_harness(pid, spec, h, overlay)
            print(f"harness {h['name']}:", "ok" if rc == 0 else out[-2000:])
            ok = ok and rc == 0
    print(f"setup done in {time.time()-t0:.0f}s ok={ok}")
    return 0 if ok else 1
